"""Equivalence check for refactoring 2 (ceos_alos2/sar_leader/attitude.py).

Run as

    cd /tmp/wt4/e24 && PYTHONPATH=/tmp/wt4/e24 /venv/bin/python _eq/2/equiv.py

(or through pytest).  Covers the construct definitions ``attitude_point`` /
``attitude_record`` (structural fingerprint, sizes, parsing of synthesised
records, parse / build errors) and the transforms ``transform_time``,
``prepend_dim``, ``transform_section`` and ``transform_attitude``.  Every case
renders the result (or the exception type and message) together with the state
of the arguments after the call into a type-, order- and value-sensitive string
and compares it with the string recorded from the unchanged code.
"""
# --------------------------------------------------------------------------
# generic harness: canonical, type-aware rendering of results + byte synthesis
# --------------------------------------------------------------------------
import math
import os
import struct as _struct
import sys

import construct
import numpy as np

HERE = os.path.dirname(os.path.abspath(__file__))
ROOT = os.path.dirname(os.path.dirname(HERE))
if ROOT not in sys.path:
    sys.path.insert(0, ROOT)

from ceos_alos2 import datatypes  # noqa: E402
from ceos_alos2.hierarchy import Group, Variable  # noqa: E402
from ceos_alos2.utils import to_dict  # noqa: E402


def canon(obj):
    """Render ``obj`` as a string that is sensitive to types, order and values."""
    if isinstance(obj, Group):
        return (
            f"Group(path={obj.path!r}, url={obj.url!r},"
            f" attrs={canon(obj.attrs)}, data={canon(obj.data)})"
        )
    if isinstance(obj, Variable):
        return f"Variable(dims={canon(obj.dims)}, data={canon(obj.data)}, attrs={canon(obj.attrs)})"
    if isinstance(obj, np.ndarray):
        if obj.dtype.kind in "mM":
            values = obj.astype("int64").tolist()
        else:
            values = obj.tolist()
        return f"ndarray[{obj.dtype.str}, {obj.shape}]({canon(values)})"
    if isinstance(obj, np.generic):
        return f"{type(obj).__name__}({obj!r})"
    if isinstance(obj, dict):
        items = ", ".join(f"{canon(k)}: {canon(v)}" for k, v in obj.items())
        return f"{type(obj).__name__}{{{items}}}"
    if isinstance(obj, (list, tuple)):
        items = ", ".join(canon(v) for v in obj)
        return f"{type(obj).__name__}[{items}]"
    if isinstance(obj, float):
        if math.isnan(obj):
            return "float(nan)"
        return f"float({obj!r})"
    if isinstance(obj, complex):
        return f"complex({canon(obj.real)}, {canon(obj.imag)})"
    if isinstance(obj, BaseException):
        return f"raised {type(obj).__module__}.{type(obj).__qualname__}({str(obj)!r})"
    if obj is None or isinstance(obj, (bool, int, str, bytes)):
        return f"{type(obj).__name__}({obj!r})"
    return f"<{type(obj).__module__}.{type(obj).__qualname__}>"


def outcome(func, *args, **kwargs):
    """Call ``func`` and render result (or exception) and the arguments afterwards."""
    try:
        result = func(*args, **kwargs)
    except Exception as e:  # noqa: BLE001
        result = e
    return f"{canon(result)} || args after: {canon(list(args))} {canon(kwargs)}"


# --- byte synthesis for the fixed-width construct definitions -------------


def _width(con):
    return con.sizeof()


def synth(con, counter, overrides=None, path=""):
    """Build bytes that ``con`` parses, numbering the fields with ``counter``."""
    overrides = overrides or {}
    if isinstance(con, construct.Renamed):
        new_path = f"{path}.{con.name}" if path else con.name
        if new_path in overrides:
            return overrides[new_path]
        return synth(con.subcon, counter, overrides, new_path)
    if isinstance(con, construct.Struct):
        return b"".join(synth(sub, counter, overrides, path) for sub in con.subcons)
    if isinstance(con, construct.Array):
        return b"".join(
            synth(con.subcon, counter, overrides, f"{path}[{i}]") for i in range(con.count)
        )
    if isinstance(con, construct.Enum):
        choices = list(con.encmapping.values())
        value = choices[next(counter) % len(choices)]
        n = _width(con.subcon)
        if isinstance(value, int):
            return str(value).rjust(n).encode("ascii")
        return str(value).ljust(n).encode("ascii")
    if isinstance(con, (datatypes.Metadata, datatypes.Factor)):
        return synth(con.subcon, counter, overrides, path)
    if isinstance(con, datatypes.AsciiComplex):
        return synth(con.subcon, counter, overrides, path)
    if isinstance(con, datatypes.AsciiInteger):
        n = _width(con)
        i = next(counter)
        if i % 11 == 10:
            return b" " * n
        return str(i % 10 ** min(n, 6)).rjust(n).encode("ascii")
    if isinstance(con, datatypes.AsciiFloat):
        n = _width(con)
        i = next(counter)
        if i % 13 == 12:
            return b" " * n
        text = f"{(-1) ** i * (i + 0.25) * 1.5:.{max(n - 9, 1)}E}" if n >= 14 else f"{i % 90}.5"
        return text.rjust(n).encode("ascii")[:n]
    if isinstance(con, datatypes.PaddedString):
        n = _width(con)
        i = next(counter)
        return f"s{i}".ljust(n).encode("ascii")[:n]
    if isinstance(con, construct.FormatField):
        return _struct.pack(con.fmtstr, next(counter) % 200)
    raise TypeError(f"cannot synthesise {con!r} at {path}")


def describe(con, depth=0):
    """Structural fingerprint of a construct definition (names, classes, sizes, attrs)."""
    if isinstance(con, construct.Renamed):
        return f"{con.name!r}/" + describe(con.subcon, depth)
    if isinstance(con, construct.Struct):
        inner = ", ".join(describe(sub, depth + 1) for sub in con.subcons)
        return f"Struct({inner})"
    if isinstance(con, construct.Array):
        count = con.count if isinstance(con.count, int) else "<expr>"
        return f"Array[{count}]({describe(con.subcon, depth + 1)})"
    if isinstance(con, construct.Enum):
        return f"Enum({describe(con.subcon)}, {sorted(con.encmapping.items(), key=repr)!r})"
    if isinstance(con, datatypes.Metadata):
        return f"Metadata({describe(con.subcon)}, {con.attrs!r})"
    if isinstance(con, datatypes.Factor):
        return f"Factor({describe(con.subcon)}, {con.factor!r})"
    if isinstance(con, datatypes.AsciiComplex):
        return f"AsciiComplex({describe(con.subcon)})"
    if isinstance(con, (datatypes.AsciiInteger, datatypes.AsciiFloat, datatypes.PaddedString)):
        try:
            size = con.sizeof()
        except Exception:  # noqa: BLE001 - size depends on the parsing context
            size = "<expr>"
        return f"{type(con).__name__}({size})"
    if isinstance(con, construct.FormatField):
        return f"FormatField({con.fmtstr!r})"
    return f"<{type(con).__name__}>"


def counter_from(start):
    import itertools

    return itertools.count(start)


def shorten(text, limit=400):
    """Keep the recording small: long renderings become head + length + sha256."""
    if len(text) <= limit:
        return text
    import hashlib

    digest = hashlib.sha256(text.encode("utf-8")).hexdigest()
    return f"{text[:limit]} ... [{len(text)} chars, sha256 {digest}]"


def report(cases, expected):
    """Evaluate ``cases`` (name -> thunk returning str) against ``expected``."""
    actual = {name: shorten(thunk()) for name, thunk in cases.items()}
    if "--record" in sys.argv:
        import pprint

        with open(os.path.join(HERE, "expected.txt"), "w") as f:
            f.write("EXPECTED = " + pprint.pformat(actual, width=110, sort_dicts=False) + "\n")
        print(f"recorded {len(actual)} cases")
        return []

    failures = []
    if list(actual) != list(expected):
        failures.append(f"case names differ: {sorted(set(actual) ^ set(expected))}")
    for name, value in actual.items():
        if expected.get(name) != value:
            failures.append(f"{name}:\n  expected {expected.get(name)}\n  actual   {value}")
    return failures


# --------------------------------------------------------------------------
# cases: ceos_alos2.sar_leader.attitude
# --------------------------------------------------------------------------
import collections  # noqa: E402

from ceos_alos2.sar_leader import attitude  # noqa: E402

CASES = {}


# --- construct definitions -------------------------------------------------


def attitude_bytes(n_points, start, blanks=20, declared=None, length=None):
    counter = counter_from(start)
    points = b"".join(synth(attitude.attitude_point, counter) for _ in range(n_points))
    if length is None:
        length = 12 + 4 + n_points * 120 + blanks
    preamble = _struct.pack(">IBBBBI", 5, 18, 40, 18, 20, length)
    declared = n_points if declared is None else declared
    return preamble + str(declared).rjust(4).encode() + points + b"x" * blanks


def parse_case(con, data):
    def thunk():
        try:
            result = to_dict(con.parse(data))
        except Exception as e:  # noqa: BLE001
            result = e
        return canon(result)

    return thunk


CASES["struct/describe attitude_point"] = lambda: describe(attitude.attitude_point)
CASES["struct/describe attitude_record"] = lambda: describe(attitude.attitude_record)
CASES["struct/sizeof attitude_point"] = lambda: canon(attitude.attitude_point.sizeof())
CASES["struct/subcon names"] = lambda: canon(
    [
        [sub.name, [inner.name for inner in sub.subcon.subcons]]
        for sub in attitude.attitude_point.subcons
    ]
)
CASES["struct/sections are distinct objects"] = lambda: canon(
    attitude.attitude_point.subcons[1].subcon is not attitude.attitude_point.subcons[2].subcon
)
for _n, _start in [(0, 1), (1, 1), (2, 5), (3, 40), (5, 77), (28, 1000), (62, 31)]:
    CASES[f"struct/parse record {_n} points from {_start}"] = parse_case(
        attitude.attitude_record, attitude_bytes(_n, _start)
    )
for _start in [0, 3, 9, 10, 11, 12, 13, 100]:
    CASES[f"struct/parse point from {_start}"] = parse_case(
        attitude.attitude_point, synth(attitude.attitude_point, counter_from(_start))
    )
CASES["struct/parse all blank point"] = parse_case(attitude.attitude_point, b" " * 120)
CASES["struct/parse point with signs and exponents"] = parse_case(
    attitude.attitude_point,
    b"".join(
        text.rjust(width).encode()
        for text, width in [
            ("123", 4),
            ("86399999", 8),
            ("0", 4),
            ("1", 4),
            ("-1", 4),
            ("-1.2345678E-03", 14),
            ("0.0000000E+00", 14),
            ("nan", 14),
            ("0001", 4),
            ("+2", 4),
            ("3  ", 4),
            ("+9.9999999E+99", 14),
            ("-inf", 14),
            ("1  ", 14),
        ]
    ),
)
CASES["struct/parse truncated point"] = parse_case(
    attitude.attitude_point, synth(attitude.attitude_point, counter_from(1))[:70]
)
CASES["struct/parse truncated in rates"] = parse_case(
    attitude.attitude_point, synth(attitude.attitude_point, counter_from(1))[:100]
)
CASES["struct/parse bad float in attitude"] = parse_case(
    attitude.attitude_point,
    synth(attitude.attitude_point, counter_from(1), {"attitude.roll": b"          abcd"}),
)
CASES["struct/parse bad integer in rates"] = parse_case(
    attitude.attitude_point,
    synth(attitude.attitude_point, counter_from(1), {"rates.yaw_error": b"  x "}),
)
CASES["struct/parse non-ascii"] = parse_case(
    attitude.attitude_point,
    synth(attitude.attitude_point, counter_from(1), {"rates.pitch": b"\xff" * 14}),
)
CASES["struct/record declares more points than present"] = parse_case(
    attitude.attitude_record, attitude_bytes(2, 1, declared=3)
)
CASES["struct/record with too small length"] = parse_case(
    attitude.attitude_record, attitude_bytes(2, 1, length=100)
)
CASES["struct/record with blank count"] = parse_case(
    attitude.attitude_record, attitude_bytes(0, 1)[:12] + b"    " + b" " * 50
)


def build_case():
    point = to_dict(attitude.attitude_point.parse(synth(attitude.attitude_point, counter_from(1))))
    try:
        result = attitude.attitude_point.build(point)
    except Exception as e:  # noqa: BLE001
        result = e
    return canon(result)


CASES["struct/build is not implemented"] = build_case


# --- transform_time ----------------------------------------------------------

for _name, _mapping in {
    "typical": {"day_of_year": [1, 2, 366], "millisecond_of_day": [0, 86399999, 1]},
    "reversed keys": {"millisecond_of_day": [5, 6], "day_of_year": [100, 200]},
    "empty": {"day_of_year": [], "millisecond_of_day": []},
    "scalars": {"day_of_year": 12, "millisecond_of_day": 500},
    "blank markers": {"day_of_year": [-1, 1], "millisecond_of_day": [-1, -1]},
    "large": {"day_of_year": [10**6], "millisecond_of_day": [10**12]},
    "mismatched lengths": {"day_of_year": [1, 2, 3], "millisecond_of_day": [1, 2]},
    "broadcast": {"day_of_year": [1, 2, 3], "millisecond_of_day": [7]},
    "floats": {"day_of_year": [1.5], "millisecond_of_day": [2.5]},
    "strings": {"day_of_year": ["1"], "millisecond_of_day": ["2"]},
    "numpy input": {
        "day_of_year": np.array([1, 2], dtype="int16"),
        "millisecond_of_day": np.array([3, 4], dtype="uint64"),
    },
    "2d": {"day_of_year": [[1, 2], [3, 4]], "millisecond_of_day": [[5, 6], [7, 8]]},
    "missing day": {"millisecond_of_day": [1]},
    "missing millisecond": {"day_of_year": [1]},
    "extra key": {"day_of_year": [1], "millisecond_of_day": [1], "second": [1]},
    "extra key first": {"second": [1], "day_of_year": [1], "millisecond_of_day": [1]},
    "no keys": {},
    "None values": {"day_of_year": None, "millisecond_of_day": None},
}.items():
    CASES[f"time/{_name}"] = lambda m=_mapping: outcome(attitude.transform_time, m)
CASES["time/not a mapping"] = lambda: outcome(attitude.transform_time, [1, 2])


# --- prepend_dim -------------------------------------------------------------


class MyDict(dict):
    pass


for _name, (_dim, _var) in {
    "scalar": ("points", 1),
    "list": ("points", [1, 2]),
    "None": ("points", None),
    "string": ("points", "abc"),
    "array": ("points", np.array([1.0, 2.0])),
    "pair": ("points", ([1, 2], {"units": "deg"})),
    "triple": ("points", (["x"], [[1], [2]], {"a": 1})),
    "empty tuple": ("points", ()),
    "single tuple": ("points", ([1],)),
    "long tuple": ("points", (1, 2, 3, 4, 5)),
    "empty dict": ("points", {}),
    "flat dict": ("points", {"a": 1, "b": ([1], {"u": 1}), "c": [3]}),
    "nested dict": (
        "points",
        {"time": np.array([1, 2]), "attitude": {"pitch": ([1, 2], {"units": "deg"}), "e": [True]}},
    ),
    "deeply nested": ("d", {"a": {"b": {"c": {"d": 1, "e": (2, {})}}, "f": {}}}),
    "dict subclass": ("d", MyDict(a=1, b=MyDict(c=(1, {})))),
    "ordered dict": ("d", collections.OrderedDict([("z", 1), ("a", {"k": [1]})])),
    "non-string keys": ("d", {1: 2, (3, 4): (5, {}), None: {}}),
    "list dim": (["a", "b"], {"x": 1, "y": (2, {})}),
    "None dim": (None, (1, {})),
    "list of dicts is not recursed": ("d", [{"a": 1}]),
    "tuple containing dict": ("d", ({"a": 1}, {"b": 2})),
}.items():
    CASES[f"prepend/{_name}"] = lambda d=_dim, v=_var: outcome(attitude.prepend_dim, d, v)


def prepend_identity():
    attrs = {"units": "deg"}
    data = [1, 2]
    inner = {"pitch": (data, attrs), "flag": data}
    var = {"attitude": inner, "time": data}
    dim = ["points"]
    result = attitude.prepend_dim(dim, var)
    return canon(
        {
            "new outer": result is not var,
            "new inner": result["attitude"] is not inner,
            "plain dict": type(result) is dict and type(result["attitude"]) is dict,
            "data shared": result["attitude"]["pitch"][1] is data and result["time"][1] is data,
            "attrs shared": result["attitude"]["pitch"][2] is attrs,
            "dim shared": all(
                v[0] is dim
                for v in (result["time"], result["attitude"]["pitch"], result["attitude"]["flag"])
            ),
            "fresh attrs for bare values": result["time"][2] is not result["attitude"]["flag"][2],
            "input untouched": canon(var),
        }
    )


CASES["prepend/identity"] = prepend_identity


# --- transform_section ---------------------------------------------------------


def gen(values):
    yield from values


for _name, _mapping in {
    "typical": {
        "pitch_error": [0, 1, 0],
        "roll_error": [1, 1, 1],
        "yaw_error": [0, 0, 0],
        "pitch": [(1.0, {"units": "deg"}), (2.0, {"units": "deg"}), (3.0, {"units": "deg"})],
        "roll": [(4.0, {"units": "deg"}), (5.0, {"units": "deg"}), (6.0, {"units": "deg"})],
        "yaw": [(7.0, {"units": "deg"}), (8.0, {"units": "deg"}), (9.0, {"units": "deg"})],
    },
    "other order and extra keys": {
        "yaw": [(7.0, {"units": "deg/s"})],
        "extra": [(1, {"a": 1})],
        "yaw_error": [5],
        "pitch_error_": [0],
        "Pitch": [(1, {})],
    },
    "differing metadata (first wins)": {"roll": [(1, {"u": "a"}), (2, {"u": "b"})]},
    "no metadata": {"pitch": [1.0, 2.0], "roll": 3.0, "yaw": []},
    "blank markers": {"pitch_error": [-1, 0, 2], "pitch": [(float("nan"), {"units": "deg"})]},
    "empty lists": {k: [] for k in ["pitch", "roll", "yaw", "pitch_error", "roll_error", "yaw_error"]},
    "empty mapping": {},
    "truthiness of odd values": {"roll_error": [None, "", "0", 0.0, [], [0], (), {"a": 1}, float("nan")]},
    "string flags": {"yaw_error": "ab"},
    "tuple flags": {"yaw_error": (0, 1)},
    "dict flags": {"pitch_error": {"a": 1, "": 2}},
    "numpy flags": {"pitch_error": np.array([0, 2, 0])},
    "nested numpy flags": {"pitch_error": [np.array([1]), np.array([0])]},
    "ambiguous numpy flags": {"pitch_error": [np.array([1, 2])]},
    "scalar flag": {"roll_error": 1},
    "None flag": {"roll_error": None},
    "tuples of three": {"pitch": [(1, {"a": 1}, "x")]},
}.items():
    CASES[f"section/{_name}"] = lambda m=_mapping: outcome(attitude.transform_section, m)
CASES["section/generator flags"] = lambda: canon(
    attitude.transform_section({"pitch_error": gen([0, 1]), "roll_error": range(3)})
)
CASES["section/not a mapping"] = lambda: outcome(attitude.transform_section, [("pitch", 1)])


# --- transform_attitude ----------------------------------------------------------


def point(i, sections=("time", "attitude", "rates")):
    full = {
        "time": {"day_of_year": 100 + i, "millisecond_of_day": 1000 * i},
        "attitude": {
            "pitch_error": i % 2,
            "roll_error": 0,
            "yaw_error": -1,
            "pitch": (1.5 * i, {"units": "deg"}),
            "roll": (-2.5 * i, {"units": "deg"}),
            "yaw": (float("nan"), {"units": "deg"}),
        },
        "rates": {
            "pitch_error": 0,
            "roll_error": 1,
            "yaw_error": 2,
            "pitch": (0.5 * i, {"units": "deg/s"}),
            "roll": (0.25 * i, {"units": "deg/s"}),
            "yaw": (0.125 * i, {"units": "deg/s"}),
        },
        "other": {"a": i, "b": (i, {"units": "m"})},
        "scalar": i,
    }
    return {k: full[k] for k in sections}


def attitude_case(mapping):
    return lambda: outcome(attitude.transform_attitude, mapping)


for _n, _start in [(1, 1), (2, 5), (3, 40), (5, 77), (28, 1000)]:
    CASES[f"attitude/parsed {_n} points from {_start}"] = attitude_case(
        to_dict(attitude.attitude_record.parse(attitude_bytes(_n, _start)))
    )
CASES["attitude/parsed 0 points"] = attitude_case(
    to_dict(attitude.attitude_record.parse(attitude_bytes(0, 1)))
)
CASES["attitude/hand-written"] = attitude_case({"data_points": [point(i) for i in range(4)]})
CASES["attitude/single point"] = attitude_case({"data_points": [point(3)]})
CASES["attitude/extra top-level keys are ignored"] = attitude_case(
    {"preamble": {"record_length": 1}, "number_of_points": 7, "data_points": [point(1), point(2)]}
)
CASES["attitude/without rates"] = attitude_case(
    {"data_points": [point(i, ("time", "attitude")) for i in range(2)]}
)
CASES["attitude/without attitude"] = attitude_case(
    {"data_points": [point(i, ("rates", "time")) for i in range(2)]}
)
CASES["attitude/without time"] = attitude_case(
    {"data_points": [point(i, ("attitude", "rates")) for i in range(2)]}
)
CASES["attitude/only time"] = attitude_case({"data_points": [point(i, ("time",)) for i in range(2)]})
CASES["attitude/additional sections"] = attitude_case(
    {"data_points": [point(i, ("other", "time", "rates", "scalar", "attitude")) for i in range(3)]}
)
CASES["attitude/sections differ between points"] = attitude_case(
    {"data_points": [point(0), point(1, ("time", "attitude"))]}
)
CASES["attitude/missing data_points"] = attitude_case({"points": []})
CASES["attitude/empty data_points"] = attitude_case({"data_points": []})
CASES["attitude/data_points is a dict"] = attitude_case({"data_points": point(1)})
CASES["attitude/data_points is None"] = attitude_case({"data_points": None})
CASES["attitude/data_points holds scalars"] = attitude_case({"data_points": [1, 2]})
CASES["attitude/section is a scalar"] = attitude_case(
    {"data_points": [{"time": point(0)["time"], "attitude": 1, "rates": 2}]}
)
CASES["attitude/time is a scalar"] = attitude_case({"data_points": [{"time": 1, "attitude": {}}]})
CASES["attitude/mapping is a list"] = attitude_case([point(1)])
CASES["attitude/mapping is a sequence with index"] = attitude_case("data_points")


def attitude_identity():
    result = attitude.transform_attitude({"data_points": [point(i) for i in range(3)]})
    a, r = result["attitude"], result["rates"]
    return canon(
        {
            "type": type(result).__name__,
            "group attrs distinct": a.attrs is not r.attrs,
            "coordinates lists distinct": a.attrs["coordinates"] is not r.attrs["coordinates"],
            "time data shared": a["time"].data is r["time"].data,
            "time variables distinct": a["time"] is not r["time"],
            "time dims": canon(a["time"].dims),
            "dims shared": a["time"].dims is a["pitch"].dims,
            "pitch attrs shared with input metadata": canon(a["pitch"].attrs),
            "keys": [list(result), list(a), list(r)],
        }
    )


CASES["attitude/identity"] = attitude_identity


# --------------------------------------------------------------------------
# expectations recorded from the UNCHANGED code (git HEAD 405b008), `--record`
# --------------------------------------------------------------------------
# fmt: off
EXPECTED = {'struct/describe attitude_point': "Struct('time'/Struct('day_of_year'/AsciiInteger(4), "
                                   "'millisecond_of_day'/AsciiInteger(8)), "
                                   "'attitude'/Struct('pitch_error'/AsciiInteger(4), "
                                   "'roll_error'/AsciiInteger(4), 'yaw_error'/AsciiInteger(4), "
                                   "'pitch'/Metadata(AsciiFloat(14), {'units': 'deg'}), "
                                   "'roll'/Metadata(AsciiFloat(14), {'units': 'deg'}), "
                                   "'yaw'/Metadata(AsciiFloat(14), {'units': 'deg'})), "
                                   "'rates'/Struct('pitch_error'/AsciiInteger(4), ' ... [617 chars, sha256 "
                                   '218a037bde96365f7accf41c0f257350e61f0bd77c16d937f57b7c4e1e6f7da3]',
 'struct/describe attitude_record': "Struct('preamble'/Struct('record_sequence_number'/FormatField('>L'), "
                                    "'first_record_subtype'/FormatField('>B'), "
                                    "'record_type'/FormatField('>B'), "
                                    "'second_record_subtype'/FormatField('>B'), "
                                    "'third_record_subtype'/FormatField('>B'), "
                                    "'record_length'/FormatField('>L')), 'number_of_points'/AsciiInteger(4), "
                                    "'data_points'/Array[<expr>](Struct('time'/Struct('day_of_year'/AsciiInteger(4), "
                                    "'millisecond_of_day ... [979 chars, sha256 "
                                    '4d8569d5c53554957fc89ffc3eca5793bb12f0323a2a062d48cb0c3ea378b2b9]',
 'struct/sizeof attitude_point': 'int(120)',
 'struct/subcon names': "list[list[str('time'), list[str('day_of_year'), str('millisecond_of_day')]], "
                        "list[str('attitude'), list[str('pitch_error'), str('roll_error'), str('yaw_error'), "
                        "str('pitch'), str('roll'), str('yaw')]], list[str('rates'), "
                        "list[str('pitch_error'), str('roll_error'), str('yaw_error'), str('pitch'), "
                        "str('roll'), str('yaw')]]]",
 'struct/sections are distinct objects': 'bool(True)',
 'struct/parse record 0 points from 1': "dict{str('preamble'): dict{str('record_sequence_number'): int(5), "
                                        "str('first_record_subtype'): int(18), str('record_type'): int(40), "
                                        "str('second_record_subtype'): int(18), str('third_record_subtype'): "
                                        "int(20), str('record_length'): int(36)}, str('number_of_points'): "
                                        "int(0), str('data_points'): list[], str('blanks'): "
                                        "str('xxxxxxxxxxxxxxxxxxxx')}",
 'struct/parse record 1 points from 1': "dict{str('preamble'): dict{str('record_sequence_number'): int(5), "
                                        "str('first_record_subtype'): int(18), str('record_type'): int(40), "
                                        "str('second_record_subtype'): int(18), str('third_record_subtype'): "
                                        "int(20), str('record_length'): int(156)}, str('number_of_points'): "
                                        "int(1), str('data_points'): list[dict{str('time'): "
                                        "dict{str('day_of_year'): int(1), str('millisecond_of_day'): "
                                        "int(2)}, str('attitud ... [1046 chars, sha256 "
                                        'f58090a709db1b32da3ec9f4be15835f4689b9c43860700a7c72ec916c55a5ee]',
 'struct/parse record 2 points from 5': "dict{str('preamble'): dict{str('record_sequence_number'): int(5), "
                                        "str('first_record_subtype'): int(18), str('record_type'): int(40), "
                                        "str('second_record_subtype'): int(18), str('third_record_subtype'): "
                                        "int(20), str('record_length'): int(276)}, str('number_of_points'): "
                                        "int(2), str('data_points'): list[dict{str('time'): "
                                        "dict{str('day_of_year'): int(5), str('millisecond_of_day'): "
                                        "int(6)}, str('attitud ... [1755 chars, sha256 "
                                        '069dc657dc78e103b69737ea1a4f529f51e67c81ca00ad70bf408b1112013e96]',
 'struct/parse record 3 points from 40': "dict{str('preamble'): dict{str('record_sequence_number'): int(5), "
                                         "str('first_record_subtype'): int(18), str('record_type'): int(40), "
                                         "str('second_record_subtype'): int(18), "
                                         "str('third_record_subtype'): int(20), str('record_length'): "
                                         "int(396)}, str('number_of_points'): int(3), str('data_points'): "
                                         "list[dict{str('time'): dict{str('day_of_year'): int(40), "
                                         "str('millisecond_of_day'): int(41)}, str('attit ... [2487 chars, "
                                         'sha256 '
                                         'ca4ebcc2b6b4b8c72cfa3fd71827ee7bddb584035019d01f58c6dbdcdad914d5]',
 'struct/parse record 5 points from 77': "dict{str('preamble'): dict{str('record_sequence_number'): int(5), "
                                         "str('first_record_subtype'): int(18), str('record_type'): int(40), "
                                         "str('second_record_subtype'): int(18), "
                                         "str('third_record_subtype'): int(20), str('record_length'): "
                                         "int(636)}, str('number_of_points'): int(5), str('data_points'): "
                                         "list[dict{str('time'): dict{str('day_of_year'): int(77), "
                                         "str('millisecond_of_day'): int(78)}, str('attit ... [3940 chars, "
                                         'sha256 '
                                         '1d6ada2f5e9ac0d10e8349b1ba05a25c033660e999c5b4364c146b2730f3db50]',
 'struct/parse record 28 points from 1000': "dict{str('preamble'): dict{str('record_sequence_number'): "
                                            "int(5), str('first_record_subtype'): int(18), "
                                            "str('record_type'): int(40), str('second_record_subtype'): "
                                            "int(18), str('third_record_subtype'): int(20), "
                                            "str('record_length'): int(3396)}, str('number_of_points'): "
                                            "int(28), str('data_points'): list[dict{str('time'): "
                                            "dict{str('day_of_year'): int(-1), str('millisecond_of_day'): "
                                            "int(1001)}, str('a ... [20822 chars, sha256 "
                                            '9d5856d2429502c1077ec9d35ca7395a675061e3d713077d42d06dfe21b2dade]',
 'struct/parse record 62 points from 31': "dict{str('preamble'): dict{str('record_sequence_number'): int(5), "
                                          "str('first_record_subtype'): int(18), str('record_type'): "
                                          "int(40), str('second_record_subtype'): int(18), "
                                          "str('third_record_subtype'): int(20), str('record_length'): "
                                          "int(7476)}, str('number_of_points'): int(62), str('data_points'): "
                                          "list[dict{str('time'): dict{str('day_of_year'): int(31), "
                                          "str('millisecond_of_day'): int(-1)}, str('att ... [45074 chars, "
                                          'sha256 '
                                          '32d2d1d348c427a054092af80a5a031775ddcc3206c501e11450bbc083f513d7]',
 'struct/parse point from 0': "dict{str('time'): dict{str('day_of_year'): int(0), str('millisecond_of_day'): "
                              "int(1)}, str('attitude'): dict{str('pitch_error'): int(2), str('roll_error'): "
                              "int(3), str('yaw_error'): int(4), str('pitch'): tuple[float(-7.875), "
                              "dict{str('units'): str('deg')}], str('roll'): tuple[float(9.375), "
                              "dict{str('units'): str('deg')}], str('yaw'): tuple[float(-10.875), "
                              "dict{str('units'): str('deg')}]}, str('rat ... [699 chars, sha256 "
                              '57c15686f39ab52e84a9d38133716ea6d866caddd2e927f1c4e6e6cf02e4c236]',
 'struct/parse point from 3': "dict{str('time'): dict{str('day_of_year'): int(3), str('millisecond_of_day'): "
                              "int(4)}, str('attitude'): dict{str('pitch_error'): int(5), str('roll_error'): "
                              "int(6), str('yaw_error'): int(7), str('pitch'): tuple[float(12.375), "
                              "dict{str('units'): str('deg')}], str('roll'): tuple[float(-13.875), "
                              "dict{str('units'): str('deg')}], str('yaw'): tuple[float(15.375), "
                              "dict{str('units'): str('deg')}]}, str('ra ... [704 chars, sha256 "
                              'e54a0804cdc679c823b3d38053749cbc1c158426893b56a19f163d8cf2102ffd]',
 'struct/parse point from 9': "dict{str('time'): dict{str('day_of_year'): int(9), str('millisecond_of_day'): "
                              "int(-1)}, str('attitude'): dict{str('pitch_error'): int(11), "
                              "str('roll_error'): int(12), str('yaw_error'): int(13), str('pitch'): "
                              "tuple[float(21.375), dict{str('units'): str('deg')}], str('roll'): "
                              "tuple[float(-22.875), dict{str('units'): str('deg')}], str('yaw'): "
                              "tuple[float(24.375), dict{str('units'): str('deg')}]}, str ... [708 chars, "
                              'sha256 a8bf48988f06cdc0915a41dabed52fa97e87f2980be1353735c7328a52a7a1fe]',
 'struct/parse point from 10': "dict{str('time'): dict{str('day_of_year'): int(-1), "
                               "str('millisecond_of_day'): int(11)}, str('attitude'): "
                               "dict{str('pitch_error'): int(12), str('roll_error'): int(13), "
                               "str('yaw_error'): int(14), str('pitch'): tuple[float(-22.875), "
                               "dict{str('units'): str('deg')}], str('roll'): tuple[float(24.375), "
                               "dict{str('units'): str('deg')}], str('yaw'): tuple[float(-25.875), "
                               "dict{str('units'): str('deg')}]}, s ... [711 chars, sha256 "
                               '4a8dae192428c504c7f623d5f54e0465449ca9a2527698cc81009b7759a51816]',
 'struct/parse point from 11': "dict{str('time'): dict{str('day_of_year'): int(11), "
                               "str('millisecond_of_day'): int(12)}, str('attitude'): "
                               "dict{str('pitch_error'): int(13), str('roll_error'): int(14), "
                               "str('yaw_error'): int(15), str('pitch'): tuple[float(24.375), "
                               "dict{str('units'): str('deg')}], str('roll'): tuple[float(-25.875), "
                               "dict{str('units'): str('deg')}], str('yaw'): tuple[float(27.375), "
                               "dict{str('units'): str('deg')}]}, st ... [709 chars, sha256 "
                               'a1425b0add9bf7798ce7657db4c5fe351476b2ee4f2f9283d9bc02a91d724ad6]',
 'struct/parse point from 12': "dict{str('time'): dict{str('day_of_year'): int(12), "
                               "str('millisecond_of_day'): int(13)}, str('attitude'): "
                               "dict{str('pitch_error'): int(14), str('roll_error'): int(15), "
                               "str('yaw_error'): int(16), str('pitch'): tuple[float(-25.875), "
                               "dict{str('units'): str('deg')}], str('roll'): tuple[float(27.375), "
                               "dict{str('units'): str('deg')}], str('yaw'): tuple[float(-28.875), "
                               "dict{str('units'): str('deg')}]}, s ... [707 chars, sha256 "
                               'bd6b346c513dabbea42509dcc2eb18106685cf63d3dd2eebb78ad407117b99f9]',
 'struct/parse point from 13': "dict{str('time'): dict{str('day_of_year'): int(13), "
                               "str('millisecond_of_day'): int(14)}, str('attitude'): "
                               "dict{str('pitch_error'): int(15), str('roll_error'): int(16), "
                               "str('yaw_error'): int(17), str('pitch'): tuple[float(27.375), "
                               "dict{str('units'): str('deg')}], str('roll'): tuple[float(-28.875), "
                               "dict{str('units'): str('deg')}], str('yaw'): tuple[float(30.375), "
                               "dict{str('units'): str('deg')}]}, st ... [705 chars, sha256 "
                               '2b7ebe75b9d945db5cf01390af36b30f59d3891dd32cd32126cfda522ea6d93c]',
 'struct/parse point from 100': "dict{str('time'): dict{str('day_of_year'): int(100), "
                                "str('millisecond_of_day'): int(101)}, str('attitude'): "
                                "dict{str('pitch_error'): int(102), str('roll_error'): int(103), "
                                "str('yaw_error'): int(104), str('pitch'): tuple[float(-157.875), "
                                "dict{str('units'): str('deg')}], str('roll'): tuple[float(159.375), "
                                "dict{str('units'): str('deg')}], str('yaw'): tuple[float(-160.875), "
                                "dict{str('units'): str('deg ... [724 chars, sha256 "
                                '2cfdfd2272884441b8671e4a5df77866f3efaeb280f292a435ef0d34e97fb72b]',
 'struct/parse all blank point': "dict{str('time'): dict{str('day_of_year'): int(-1), "
                                 "str('millisecond_of_day'): int(-1)}, str('attitude'): "
                                 "dict{str('pitch_error'): int(-1), str('roll_error'): int(-1), "
                                 "str('yaw_error'): int(-1), str('pitch'): tuple[float(nan), "
                                 "dict{str('units'): str('deg')}], str('roll'): tuple[float(nan), "
                                 "dict{str('units'): str('deg')}], str('yaw'): tuple[float(nan), "
                                 "dict{str('units'): str('deg')}]}, str('rates') ... [689 chars, sha256 "
                                 '5bf0e69f3a587910cab878502490d22c95be43eac24594fbd230d7e76eb2b832]',
 'struct/parse point with signs and exponents': "dict{str('time'): dict{str('day_of_year'): int(123), "
                                                "str('millisecond_of_day'): int(86399999)}, str('attitude'): "
                                                "dict{str('pitch_error'): int(0), str('roll_error'): int(1), "
                                                "str('yaw_error'): int(-1), str('pitch'): "
                                                "tuple[float(-0.0012345678), dict{str('units'): "
                                                "str('deg')}], str('roll'): tuple[float(0.0), "
                                                "dict{str('units'): str('deg')}], str('yaw'): "
                                                "tuple[float(nan), dict{str('units'): str('deg')}] ... [712 "
                                                'chars, sha256 '
                                                'd89df5bdee00a6707b2522a4ba20d094d6692f6031a95f5c8fbc145bc62d460b]',
 'struct/parse truncated point': "raised construct.core.StreamError('Error in path (parsing) -> rates -> "
                                 "roll_error\\nstream read less than specified amount, expected 4, found 0')",
 'struct/parse truncated in rates': "raised construct.core.StreamError('Error in path (parsing) -> rates -> "
                                    "roll\\nstream read less than specified amount, expected 14, found 8')",
 'struct/parse bad float in attitude': 'raised builtins.ValueError("could not convert string to float: '
                                       '\'abcd\'")',
 'struct/parse bad integer in rates': 'raised builtins.ValueError("invalid literal for int() with base 10: '
                                      '\'x\'")',
 'struct/parse non-ascii': 'raised construct.core.StringError("cannot use encoding \'ascii\' to decode '
                           'b\'\\\\xff\\\\xff\\\\xff\\\\xff\\\\xff\\\\xff\\\\xff\\\\xff\\\\xff\\\\xff\\\\xff\\\\xff\\\\xff\\\\xff\'")',
 'struct/record declares more points than present': 'raised builtins.ValueError("invalid literal for int() '
                                                    'with base 10: \'xxxx\'")',
 'struct/record with too small length': "raised construct.core.PaddingError('Error in path (parsing) -> "
                                        "blanks\\nlength cannot be negative')",
 'struct/record with blank count': "raised construct.core.RangeError('Error in path (parsing) -> "
                                   "data_points\\ninvalid count -1')",
 'struct/build is not implemented': "raised builtins.NotImplementedError('')",
 'time/typical': 'ndarray[<m8[ns], (3,)](list[int(86400000000000), int(259199999000000), '
                 "int(31622400001000000)]) || args after: list[dict{str('day_of_year'): list[int(1), int(2), "
                 "int(366)], str('millisecond_of_day'): list[int(0), int(86399999), int(1)]}] dict{}",
 'time/reversed keys': 'ndarray[<m8[ns], (2,)](list[int(8640000005000000), int(17280000006000000)]) || args '
                       "after: list[dict{str('millisecond_of_day'): list[int(5), int(6)], "
                       "str('day_of_year'): list[int(100), int(200)]}] dict{}",
 'time/empty': "ndarray[<m8[ns], (0,)](list[]) || args after: list[dict{str('day_of_year'): list[], "
               "str('millisecond_of_day'): list[]}] dict{}",
 'time/scalars': "timedelta64(np.timedelta64(1036800500000000,'ns')) || args after: "
                 "list[dict{str('day_of_year'): int(12), str('millisecond_of_day'): int(500)}] dict{}",
 'time/blank markers': 'ndarray[<m8[ns], (2,)](list[int(-86400001000000), int(86399999000000)]) || args '
                       "after: list[dict{str('day_of_year'): list[int(-1), int(1)], "
                       "str('millisecond_of_day'): list[int(-1), int(-1)]}] dict{}",
 'time/large': "raised builtins.OverflowError('Overflow when converting between datetime64 units') || args "
               "after: list[dict{str('day_of_year'): list[int(1000000)], str('millisecond_of_day'): "
               'list[int(1000000000000)]}] dict{}',
 'time/mismatched lengths': "raised builtins.ValueError('operands could not be broadcast together with "
                            "shapes (3,) (2,) ') || args after: list[dict{str('day_of_year'): list[int(1), "
                            "int(2), int(3)], str('millisecond_of_day'): list[int(1), int(2)]}] dict{}",
 'time/broadcast': 'ndarray[<m8[ns], (3,)](list[int(86400007000000), int(172800007000000), '
                   "int(259200007000000)]) || args after: list[dict{str('day_of_year'): list[int(1), int(2), "
                   "int(3)], str('millisecond_of_day'): list[int(7)]}] dict{}",
 'time/floats': "raised builtins.ValueError('Could not convert object to NumPy timedelta') || args after: "
                "list[dict{str('day_of_year'): list[float(1.5)], str('millisecond_of_day'): "
                'list[float(2.5)]}] dict{}',
 'time/strings': 'ndarray[<m8[ns], (1,)](list[int(86400002000000)]) || args after: '
                 "list[dict{str('day_of_year'): list[str('1')], str('millisecond_of_day'): list[str('2')]}] "
                 'dict{}',
 'time/numpy input': 'ndarray[<m8[ns], (2,)](list[int(86400003000000), int(172800004000000)]) || args after: '
                     "list[dict{str('day_of_year'): ndarray[<i2, (2,)](list[int(1), int(2)]), "
                     "str('millisecond_of_day'): ndarray[<u8, (2,)](list[int(3), int(4)])}] dict{}",
 'time/2d': 'ndarray[<m8[ns], (2, 2)](list[list[int(86400005000000), int(172800006000000)], '
            "list[int(259200007000000), int(345600008000000)]]) || args after: list[dict{str('day_of_year'): "
            "list[list[int(1), int(2)], list[int(3), int(4)]], str('millisecond_of_day'): list[list[int(5), "
            'int(6)], list[int(7), int(8)]]}] dict{}',
 'time/missing day': 'raised builtins.KeyError("\'day_of_year\'") || args after: '
                     "list[dict{str('millisecond_of_day'): list[int(1)]}] dict{}",
 'time/missing millisecond': 'raised builtins.KeyError("\'millisecond_of_day\'") || args after: '
                             "list[dict{str('day_of_year'): list[int(1)]}] dict{}",
 'time/extra key': 'raised builtins.KeyError("\'second\'") || args after: list[dict{str(\'day_of_year\'): '
                   "list[int(1)], str('millisecond_of_day'): list[int(1)], str('second'): list[int(1)]}] "
                   'dict{}',
 'time/extra key first': 'raised builtins.KeyError("\'second\'") || args after: list[dict{str(\'second\'): '
                         "list[int(1)], str('day_of_year'): list[int(1)], str('millisecond_of_day'): "
                         'list[int(1)]}] dict{}',
 'time/no keys': 'raised builtins.KeyError("\'day_of_year\'") || args after: list[dict{}] dict{}',
 'time/None values': "timedelta64(np.timedelta64('NaT','ns')) || args after: list[dict{str('day_of_year'): "
                     "NoneType(None), str('millisecond_of_day'): NoneType(None)}] dict{}",
 'time/not a mapping': 'raised builtins.AttributeError("\'list\' object has no attribute \'items\'") || args '
                       'after: list[list[int(1), int(2)]] dict{}',
 'prepend/scalar': "tuple[str('points'), int(1), dict{}] || args after: list[str('points'), int(1)] dict{}",
 'prepend/list': "tuple[str('points'), list[int(1), int(2)], dict{}] || args after: list[str('points'), "
                 'list[int(1), int(2)]] dict{}',
 'prepend/None': "tuple[str('points'), NoneType(None), dict{}] || args after: list[str('points'), "
                 'NoneType(None)] dict{}',
 'prepend/string': "tuple[str('points'), str('abc'), dict{}] || args after: list[str('points'), str('abc')] "
                   'dict{}',
 'prepend/array': "tuple[str('points'), ndarray[<f8, (2,)](list[float(1.0), float(2.0)]), dict{}] || args "
                  "after: list[str('points'), ndarray[<f8, (2,)](list[float(1.0), float(2.0)])] dict{}",
 'prepend/pair': "tuple[str('points'), list[int(1), int(2)], dict{str('units'): str('deg')}] || args after: "
                 "list[str('points'), tuple[list[int(1), int(2)], dict{str('units'): str('deg')}]] dict{}",
 'prepend/triple': "tuple[str('points'), list[str('x')], list[list[int(1)], list[int(2)]], dict{str('a'): "
                   "int(1)}] || args after: list[str('points'), tuple[list[str('x')], list[list[int(1)], "
                   "list[int(2)]], dict{str('a'): int(1)}]] dict{}",
 'prepend/empty tuple': "tuple[str('points')] || args after: list[str('points'), tuple[]] dict{}",
 'prepend/single tuple': "tuple[str('points'), list[int(1)]] || args after: list[str('points'), "
                         'tuple[list[int(1)]]] dict{}',
 'prepend/long tuple': "tuple[str('points'), int(1), int(2), int(3), int(4), int(5)] || args after: "
                       "list[str('points'), tuple[int(1), int(2), int(3), int(4), int(5)]] dict{}",
 'prepend/empty dict': "dict{} || args after: list[str('points'), dict{}] dict{}",
 'prepend/flat dict': "dict{str('a'): tuple[str('points'), int(1), dict{}], str('b'): tuple[str('points'), "
                      "list[int(1)], dict{str('u'): int(1)}], str('c'): tuple[str('points'), list[int(3)], "
                      "dict{}]} || args after: list[str('points'), dict{str('a'): int(1), str('b'): "
                      "tuple[list[int(1)], dict{str('u'): int(1)}], str('c'): list[int(3)]}] dict{}",
 'prepend/nested dict': "dict{str('time'): tuple[str('points'), ndarray[<i8, (2,)](list[int(1), int(2)]), "
                        "dict{}], str('attitude'): dict{str('pitch'): tuple[str('points'), list[int(1), "
                        "int(2)], dict{str('units'): str('deg')}], str('e'): tuple[str('points'), "
                        "list[bool(True)], dict{}]}} || args after: list[str('points'), dict{str('time'): "
                        "ndarray[<i8, (2,)](list[int(1), int(2)]), str('attitude'): dict{str('pitch'): "
                        'tuple[li ... [489 chars, sha256 '
                        '143bac6081871b4d72c28040c69e03fbe8e902f63e28da522c9a03b091f7f1b3]',
 'prepend/deeply nested': "dict{str('a'): dict{str('b'): dict{str('c'): dict{str('d'): tuple[str('d'), "
                          "int(1), dict{}], str('e'): tuple[str('d'), int(2), dict{}]}}, str('f'): dict{}}} "
                          "|| args after: list[str('d'), dict{str('a'): dict{str('b'): dict{str('c'): "
                          "dict{str('d'): int(1), str('e'): tuple[int(2), dict{}]}}, str('f'): dict{}}}] "
                          'dict{}',
 'prepend/dict subclass': "dict{str('a'): tuple[str('d'), int(1), dict{}], str('b'): dict{str('c'): "
                          "tuple[str('d'), int(1), dict{}]}} || args after: list[str('d'), MyDict{str('a'): "
                          "int(1), str('b'): MyDict{str('c'): tuple[int(1), dict{}]}}] dict{}",
 'prepend/ordered dict': "dict{str('z'): tuple[str('d'), int(1), dict{}], str('a'): dict{str('k'): "
                         "tuple[str('d'), list[int(1)], dict{}]}} || args after: list[str('d'), "
                         "OrderedDict{str('z'): int(1), str('a'): dict{str('k'): list[int(1)]}}] dict{}",
 'prepend/non-string keys': "dict{int(1): tuple[str('d'), int(2), dict{}], tuple[int(3), int(4)]: "
                            "tuple[str('d'), int(5), dict{}], NoneType(None): dict{}} || args after: "
                            "list[str('d'), dict{int(1): int(2), tuple[int(3), int(4)]: tuple[int(5), "
                            'dict{}], NoneType(None): dict{}}] dict{}',
 'prepend/list dim': "dict{str('x'): tuple[list[str('a'), str('b')], int(1), dict{}], str('y'): "
                     "tuple[list[str('a'), str('b')], int(2), dict{}]} || args after: list[list[str('a'), "
                     "str('b')], dict{str('x'): int(1), str('y'): tuple[int(2), dict{}]}] dict{}",
 'prepend/None dim': 'tuple[NoneType(None), int(1), dict{}] || args after: list[NoneType(None), '
                     'tuple[int(1), dict{}]] dict{}',
 'prepend/list of dicts is not recursed': "tuple[str('d'), list[dict{str('a'): int(1)}], dict{}] || args "
                                          "after: list[str('d'), list[dict{str('a'): int(1)}]] dict{}",
 'prepend/tuple containing dict': "tuple[str('d'), dict{str('a'): int(1)}, dict{str('b'): int(2)}] || args "
                                  "after: list[str('d'), tuple[dict{str('a'): int(1)}, dict{str('b'): "
                                  'int(2)}]] dict{}',
 'prepend/identity': "dict{str('new outer'): bool(True), str('new inner'): bool(True), str('plain dict'): "
                     "bool(True), str('data shared'): bool(True), str('attrs shared'): bool(True), str('dim "
                     "shared'): bool(True), str('fresh attrs for bare values'): bool(True), str('input "
                     'untouched\'): str("dict{str(\'attitude\'): dict{str(\'pitch\'): tuple[list[int(1), '
                     "int(2)], dict{str('units'): str('deg')}], str('flag'): list[int(1), int ... [444 "
                     'chars, sha256 e2fe7648f17e7468c545dc038d7a0c4a7a84a023288c80ce975390e486d7ba66]',
 'section/typical': "dict{str('pitch_error'): list[bool(False), bool(True), bool(False)], str('roll_error'): "
                    "list[bool(True), bool(True), bool(True)], str('yaw_error'): list[bool(False), "
                    "bool(False), bool(False)], str('pitch'): tuple[list[float(1.0), float(2.0), "
                    "float(3.0)], dict{str('units'): str('deg')}], str('roll'): tuple[list[float(4.0), "
                    "float(5.0), float(6.0)], dict{str('units'): str('deg')}], str('yaw'): tuple[ ... [1170 "
                    'chars, sha256 7e2b729b7c2eb716abcba64d946f276eb6725f07a9ca09ac0c70921b4d4eab2b]',
 'section/other order and extra keys': "dict{str('yaw'): tuple[list[float(7.0)], dict{str('units'): "
                                       "str('deg/s')}], str('extra'): list[tuple[int(1), dict{str('a'): "
                                       "int(1)}]], str('yaw_error'): list[bool(True)], str('pitch_error_'): "
                                       "list[int(0)], str('Pitch'): list[tuple[int(1), dict{}]]} || args "
                                       "after: list[dict{str('yaw'): list[tuple[float(7.0), "
                                       "dict{str('units'): str('deg/s')}]], str('extra'): list[tuple[int(1), "
                                       "dict{str('a'): int(1)} ... [521 chars, sha256 "
                                       'd9e5f668b1deb4363ae581a35d66d11e07713f33b67af190c82855aab1365d8f]',
 'section/differing metadata (first wins)': "dict{str('roll'): tuple[list[int(1), int(2)], dict{str('u'): "
                                            "str('a')}]} || args after: list[dict{str('roll'): "
                                            "list[tuple[int(1), dict{str('u'): str('a')}], tuple[int(2), "
                                            "dict{str('u'): str('b')}]]}] dict{}",
 'section/no metadata': "dict{str('pitch'): tuple[list[float(1.0), float(2.0)], dict{}], str('roll'): "
                        "tuple[float(3.0), dict{}], str('yaw'): tuple[list[], dict{}]} || args after: "
                        "list[dict{str('pitch'): list[float(1.0), float(2.0)], str('roll'): float(3.0), "
                        "str('yaw'): list[]}] dict{}",
 'section/blank markers': "dict{str('pitch_error'): list[bool(True), bool(False), bool(True)], str('pitch'): "
                          "tuple[list[float(nan)], dict{str('units'): str('deg')}]} || args after: "
                          "list[dict{str('pitch_error'): list[int(-1), int(0), int(2)], str('pitch'): "
                          "list[tuple[float(nan), dict{str('units'): str('deg')}]]}] dict{}",
 'section/empty lists': "dict{str('pitch'): tuple[list[], dict{}], str('roll'): tuple[list[], dict{}], "
                        "str('yaw'): tuple[list[], dict{}], str('pitch_error'): list[], str('roll_error'): "
                        "list[], str('yaw_error'): list[]} || args after: list[dict{str('pitch'): list[], "
                        "str('roll'): list[], str('yaw'): list[], str('pitch_error'): list[], "
                        "str('roll_error'): list[], str('yaw_error'): list[]}] dict{}",
 'section/empty mapping': 'dict{} || args after: list[dict{}] dict{}',
 'section/truthiness of odd values': "dict{str('roll_error'): list[bool(False), bool(False), bool(True), "
                                     'bool(False), bool(False), bool(True), bool(False), bool(True), '
                                     "bool(True)]} || args after: list[dict{str('roll_error'): "
                                     "list[NoneType(None), str(''), str('0'), float(0.0), list[], "
                                     "list[int(0)], tuple[], dict{str('a'): int(1)}, float(nan)]}] dict{}",
 'section/string flags': "dict{str('yaw_error'): list[bool(True), bool(True)]} || args after: "
                         "list[dict{str('yaw_error'): str('ab')}] dict{}",
 'section/tuple flags': "dict{str('yaw_error'): list[bool(False), bool(True)]} || args after: "
                        "list[dict{str('yaw_error'): tuple[int(0), int(1)]}] dict{}",
 'section/dict flags': "dict{str('pitch_error'): list[bool(True), bool(False)]} || args after: "
                       "list[dict{str('pitch_error'): dict{str('a'): int(1), str(''): int(2)}}] dict{}",
 'section/numpy flags': "dict{str('pitch_error'): list[bool(False), bool(True), bool(False)]} || args after: "
                        "list[dict{str('pitch_error'): ndarray[<i8, (3,)](list[int(0), int(2), int(0)])}] "
                        'dict{}',
 'section/nested numpy flags': "dict{str('pitch_error'): list[bool(True), bool(False)]} || args after: "
                               "list[dict{str('pitch_error'): list[ndarray[<i8, (1,)](list[int(1)]), "
                               'ndarray[<i8, (1,)](list[int(0)])]}] dict{}',
 'section/ambiguous numpy flags': "raised builtins.ValueError('The truth value of an array with more than "
                                  "one element is ambiguous. Use a.any() or a.all()') || args after: "
                                  "list[dict{str('pitch_error'): list[ndarray[<i8, (2,)](list[int(1), "
                                  'int(2)])]}] dict{}',
 'section/scalar flag': 'raised builtins.TypeError("\'int\' object is not iterable") || args after: '
                        "list[dict{str('roll_error'): int(1)}] dict{}",
 'section/None flag': 'raised builtins.TypeError("\'NoneType\' object is not iterable") || args after: '
                      "list[dict{str('roll_error'): NoneType(None)}] dict{}",
 'section/tuples of three': "raised builtins.ValueError('too many values to unpack (expected 2)') || args "
                            "after: list[dict{str('pitch'): list[tuple[int(1), dict{str('a'): int(1)}, "
                            "str('x')]]}] dict{}",
 'section/generator flags': "dict{str('pitch_error'): list[bool(False), bool(True)], str('roll_error'): "
                            'list[bool(False), bool(True), bool(True)]}',
 'section/not a mapping': 'raised builtins.AttributeError("\'list\' object has no attribute \'items\'") || '
                          "args after: list[list[tuple[str('pitch'), int(1)]]] dict{}",
 'attitude/parsed 1 points from 1': "Group(path='/', url=None, attrs=dict{}, data=dict{str('attitude'): "
                                    "Group(path='/attitude', url=None, attrs=dict{str('coordinates'): "
                                    "list[str('time')]}, data=dict{str('pitch_error'): "
                                    "Variable(dims=list[str('points')], data=list[bool(True)], "
                                    "attrs=dict{}), str('roll_error'): Variable(dims=list[str('points')], "
                                    "data=list[bool(True)], attrs=dict{}), str('yaw_error'): "
                                    "Variable(dims=list[str('points')],  ... [2819 chars, sha256 "
                                    'cebd81696e50bd571ccce077d35cede285c50ec8e562bb67159c4fe839fbdaef]',
 'attitude/parsed 2 points from 5': "Group(path='/', url=None, attrs=dict{}, data=dict{str('attitude'): "
                                    "Group(path='/attitude', url=None, attrs=dict{str('coordinates'): "
                                    "list[str('time')]}, data=dict{str('pitch_error'): "
                                    "Variable(dims=list[str('points')], data=list[bool(True), bool(True)], "
                                    "attrs=dict{}), str('roll_error'): Variable(dims=list[str('points')], "
                                    "data=list[bool(True), bool(True)], attrs=dict{}), str('yaw_error'): "
                                    'Variable(di ... [3737 chars, sha256 '
                                    '29a04855a46b46fa40e58ad664a5d2fd33206af9ff082e31072e71072684e7a9]',
 'attitude/parsed 3 points from 40': "Group(path='/', url=None, attrs=dict{}, data=dict{str('attitude'): "
                                     "Group(path='/attitude', url=None, attrs=dict{str('coordinates'): "
                                     "list[str('time')]}, data=dict{str('pitch_error'): "
                                     "Variable(dims=list[str('points')], data=list[bool(True), bool(True), "
                                     "bool(True)], attrs=dict{}), str('roll_error'): "
                                     "Variable(dims=list[str('points')], data=list[bool(True), bool(True), "
                                     "bool(True)], attrs=dict{}), str(' ... [4695 chars, sha256 "
                                     'f8b2063f8ce38123f36ba256e2a864cf66569b57942194bb9510d0fc7a191b9a]',
 'attitude/parsed 5 points from 77': "Group(path='/', url=None, attrs=dict{}, data=dict{str('attitude'): "
                                     "Group(path='/attitude', url=None, attrs=dict{str('coordinates'): "
                                     "list[str('time')]}, data=dict{str('pitch_error'): "
                                     "Variable(dims=list[str('points')], data=list[bool(True), bool(True), "
                                     "bool(True), bool(True), bool(True)], attrs=dict{}), str('roll_error'): "
                                     "Variable(dims=list[str('points')], data=list[bool(True), bool(True), "
                                     'bool(True ... [6582 chars, sha256 '
                                     'a22f0f7c822851a02df836117f5c363741db9a0b02b4a5e47d4cd26feb77a186]',
 'attitude/parsed 28 points from 1000': "Group(path='/', url=None, attrs=dict{}, data=dict{str('attitude'): "
                                        "Group(path='/attitude', url=None, attrs=dict{str('coordinates'): "
                                        "list[str('time')]}, data=dict{str('pitch_error'): "
                                        "Variable(dims=list[str('points')], data=list[bool(True), "
                                        'bool(True), bool(True), bool(True), bool(True), bool(True), '
                                        'bool(True), bool(True), bool(True), bool(True), bool(True), '
                                        'bool(True), bool(True), bool(True), bool( ... [28508 chars, sha256 '
                                        '2344a6d4eef97d8e66ef1e1318992376ff34abe6b82aed9193b366510089373d]',
 'attitude/parsed 0 points': 'raised builtins.AttributeError("\'list\' object has no attribute \'keys\'") || '
                             "args after: list[dict{str('preamble'): dict{str('record_sequence_number'): "
                             "int(5), str('first_record_subtype'): int(18), str('record_type'): int(40), "
                             "str('second_record_subtype'): int(18), str('third_record_subtype'): int(20), "
                             "str('record_length'): int(36)}, str('number_of_points'): int(0), "
                             "str('data_points'): list[], str(' ... [446 chars, sha256 "
                             '5888d3ee0333cfc57efb10546a442be6a1b3f1cbcaf1f3f68e3bc2ae53e01501]',
 'attitude/hand-written': "Group(path='/', url=None, attrs=dict{}, data=dict{str('attitude'): "
                          "Group(path='/attitude', url=None, attrs=dict{str('coordinates'): "
                          "list[str('time')]}, data=dict{str('pitch_error'): "
                          "Variable(dims=list[str('points')], data=list[bool(False), bool(True), "
                          "bool(False), bool(True)], attrs=dict{}), str('roll_error'): "
                          "Variable(dims=list[str('points')], data=list[bool(False), bool(False), "
                          'bool(False), bool ... [5146 chars, sha256 '
                          'eb1114c31511d6e4566b9d13b482ba181fc1605ccb59e05735eb757186dab963]',
 'attitude/single point': "Group(path='/', url=None, attrs=dict{}, data=dict{str('attitude'): "
                          "Group(path='/attitude', url=None, attrs=dict{str('coordinates'): "
                          "list[str('time')]}, data=dict{str('pitch_error'): "
                          "Variable(dims=list[str('points')], data=list[bool(True)], attrs=dict{}), "
                          "str('roll_error'): Variable(dims=list[str('points')], data=list[bool(False)], "
                          "attrs=dict{}), str('yaw_error'): Variable(dims=list[str('points')], ... [2490 "
                          'chars, sha256 81faba6896cafa61c405f397f8631868f13bf536e5dcec376b8bfe5953166f31]',
 'attitude/extra top-level keys are ignored': "Group(path='/', url=None, attrs=dict{}, "
                                              "data=dict{str('attitude'): Group(path='/attitude', url=None, "
                                              "attrs=dict{str('coordinates'): list[str('time')]}, "
                                              "data=dict{str('pitch_error'): "
                                              "Variable(dims=list[str('points')], data=list[bool(True), "
                                              "bool(False)], attrs=dict{}), str('roll_error'): "
                                              "Variable(dims=list[str('points')], data=list[bool(False), "
                                              "bool(False)], attrs=dict{}), str('yaw_error'): Variable ... "
                                              '[3462 chars, sha256 '
                                              'af7f01bb5e2618df2e2f51dbe15a390790d9d3b4c09a24b46f7640c97214ae0a]',
 'attitude/without rates': "Group(path='/', url=None, attrs=dict{}, data=dict{str('attitude'): "
                           "Group(path='/attitude', url=None, attrs=dict{str('coordinates'): "
                           "list[str('time')]}, data=dict{str('pitch_error'): "
                           "Variable(dims=list[str('points')], data=list[bool(False), bool(True)], "
                           "attrs=dict{}), str('roll_error'): Variable(dims=list[str('points')], "
                           "data=list[bool(False), bool(False)], attrs=dict{}), str('yaw_error'): Variable "
                           '... [2081 chars, sha256 '
                           '23c4ce713c5136cefa1f4f9a60bd22623828ba6468ee1fc9d195bfaa72427ac2]',
 'attitude/without attitude': "Group(path='/', url=None, attrs=dict{}, data=dict{str('rates'): "
                              "Group(path='/rates', url=None, attrs=dict{str('coordinates'): "
                              "list[str('time')]}, data=dict{str('pitch_error'): "
                              "Variable(dims=list[str('points')], data=list[bool(False), bool(False)], "
                              "attrs=dict{}), str('roll_error'): Variable(dims=list[str('points')], "
                              "data=list[bool(True), bool(True)], attrs=dict{}), str('yaw_error'): "
                              'Variable(dims=l ... [2092 chars, sha256 '
                              '5d0ac75b1b3db76b64547fd488eb4b0276038284e48833aea1997b98c43cf772]',
 'attitude/without time': "Group(path='/', url=None, attrs=dict{}, data=dict{str('attitude'): "
                          "Group(path='/attitude', url=None, attrs=dict{str('coordinates'): "
                          "list[str('time')]}, data=dict{str('pitch_error'): "
                          "Variable(dims=list[str('points')], data=list[bool(False), bool(True)], "
                          "attrs=dict{}), str('roll_error'): Variable(dims=list[str('points')], "
                          "data=list[bool(False), bool(False)], attrs=dict{}), str('yaw_error'): Variable "
                          '... [2912 chars, sha256 '
                          'ab37b92fa496437b48170208780208ef7ca66ed8fd31ada38c1d0b77e12ec432]',
 'attitude/only time': "Group(path='/', url=None, attrs=dict{}, data=dict{str('attitude'): "
                       "Group(path='/attitude', url=None, attrs=dict{str('coordinates'): list[str('time')]}, "
                       "data=dict{str('time'): Variable(dims=list[str('points')], data=ndarray[<m8[ns], "
                       '(2,)](list[int(8640000000000000), int(8726401000000000)]), attrs=dict{})}), '
                       "str('rates'): Group(path='/rates', url=None, attrs=dict{str('coordinates'): "
                       "list[str('time') ... [802 chars, sha256 "
                       '59acd60295e9821c6743afbdd2e8ec00aa70aae7cbf38603388799fd8fe76e9e]',
 'attitude/additional sections': "Group(path='/', url=None, attrs=dict{}, data=dict{str('scalar'): "
                                 "Variable(dims=tuple[], data=tuple[str('points'), list[int(0), int(1), "
                                 "int(2)], dict{}], attrs=dict{str('coordinates'): list[str('time')]}), "
                                 "str('other'): Group(path='/other', url=None, "
                                 "attrs=dict{str('coordinates'): list[str('time')]}, data=dict{str('a'): "
                                 "Variable(dims=list[str('points')], data=list[int(0), int(1), int(2)], "
                                 'attrs=dic ... [5169 chars, sha256 '
                                 '6e8877837c7e51b47d37f6cbd75f698496a1300e1a30ccd6063470d4d52033b2]',
 'attitude/sections differ between points': "Group(path='/', url=None, attrs=dict{}, "
                                            "data=dict{str('attitude'): Group(path='/attitude', url=None, "
                                            "attrs=dict{str('coordinates'): list[str('time')]}, "
                                            "data=dict{str('pitch_error'): "
                                            "Variable(dims=list[str('points')], data=list[bool(False), "
                                            "bool(True)], attrs=dict{}), str('roll_error'): "
                                            "Variable(dims=list[str('points')], data=list[bool(False), "
                                            "bool(False)], attrs=dict{}), str('yaw_error'): Variable ... "
                                            '[2993 chars, sha256 '
                                            'e6e0e6b8fdbbe1396d877fee386b835704943f62bf0c95837373976e97f9cc90]',
 'attitude/missing data_points': 'raised builtins.KeyError("\'data_points\'") || args after: '
                                 "list[dict{str('points'): list[]}] dict{}",
 'attitude/empty data_points': 'raised builtins.AttributeError("\'list\' object has no attribute \'keys\'") '
                               "|| args after: list[dict{str('data_points'): list[]}] dict{}",
 'attitude/data_points is a dict': 'raised builtins.TypeError("\'int\' object is not iterable") || args '
                                   "after: list[dict{str('data_points'): dict{str('time'): "
                                   "dict{str('day_of_year'): int(101), str('millisecond_of_day'): "
                                   "int(1000)}, str('attitude'): dict{str('pitch_error'): int(1), "
                                   "str('roll_error'): int(0), str('yaw_error'): int(-1), str('pitch'): "
                                   "tuple[float(1.5), dict{str('units'): str('deg')}], str('roll'): "
                                   'tuple[float(-2.5), dict ... [803 chars, sha256 '
                                   'd70ff6c627dd6df2e1ad934c00917d45c8966b18b9bc3cdb6f0f847cb7b5a6b2]',
 'attitude/data_points is None': 'raised builtins.AttributeError("\'NoneType\' object has no attribute '
                                 '\'keys\'") || args after: list[dict{str(\'data_points\'): NoneType(None)}] '
                                 'dict{}',
 'attitude/data_points holds scalars': 'raised builtins.AttributeError("\'list\' object has no attribute '
                                       '\'keys\'") || args after: list[dict{str(\'data_points\'): '
                                       'list[int(1), int(2)]}] dict{}',
 'attitude/section is a scalar': 'raised builtins.AttributeError("\'list\' object has no attribute '
                                 '\'items\'") || args after: list[dict{str(\'data_points\'): '
                                 "list[dict{str('time'): dict{str('day_of_year'): int(100), "
                                 "str('millisecond_of_day'): int(0)}, str('attitude'): int(1), str('rates'): "
                                 'int(2)}]}] dict{}',
 'attitude/time is a scalar': 'raised builtins.AttributeError("\'list\' object has no attribute \'items\'") '
                              "|| args after: list[dict{str('data_points'): list[dict{str('time'): int(1), "
                              "str('attitude'): dict{}}]}] dict{}",
 'attitude/mapping is a list': "raised builtins.TypeError('list indices must be integers or slices, not "
                               "str') || args after: list[list[dict{str('time'): dict{str('day_of_year'): "
                               "int(101), str('millisecond_of_day'): int(1000)}, str('attitude'): "
                               "dict{str('pitch_error'): int(1), str('roll_error'): int(0), "
                               "str('yaw_error'): int(-1), str('pitch'): tuple[float(1.5), "
                               "dict{str('units'): str('deg')}], str('roll'): tuple[float(-2.5), dict ... "
                               '[803 chars, sha256 '
                               'bd937537c5e94bfb834d4e87e98d8f1530bb9d0471ffb83a43ec4f65aa64fcaf]',
 'attitude/mapping is a sequence with index': 'raised builtins.TypeError("string indices must be integers, '
                                              'not \'str\'") || args after: list[str(\'data_points\')] '
                                              'dict{}',
 'attitude/identity': "dict{str('type'): str('Group'), str('group attrs distinct'): bool(True), "
                      "str('coordinates lists distinct'): bool(True), str('time data shared'): bool(True), "
                      "str('time variables distinct'): bool(True), str('time dims'): "
                      'str("list[str(\'points\')]"), str(\'dims shared\'): bool(False), str(\'pitch attrs '
                      'shared with input metadata\'): str("dict{str(\'units\'): str(\'deg\')}"), '
                      "str('keys'): list[list[str('attitu ... [651 chars, sha256 "
                      'daa2908eaba9034fff4d4f7493cea1f0ab62b76f0be90b0490db2fbfb4c27314]'}
# fmt: on


def test_equivalence():
    failures = report(CASES, EXPECTED)
    assert not failures, "\n".join(failures)


if __name__ == "__main__":
    import ceos_alos2

    print("ceos_alos2 from", ceos_alos2.__file__)
    failures = report(CASES, EXPECTED)
    if "--record" not in sys.argv:
        for failure in failures:
            print("MISMATCH", failure)
        print(f"{len(CASES) - len(failures)} of {len(CASES)} cases identical to the recording")
        sys.exit(1 if failures else 0)
