"""Equivalence check for refactoring 2 (ceos_alos2.sar_image.io: parse_chunk,
adjust_offsets and the record_types table).

Run as
    cd /tmp/wt5/e31 && PYTHONPATH=/tmp/wt5/e31 /venv/bin/python _eq/2/equiv.py
(or through pytest). The values in EXPECTED were recorded from the unchanged code at
HEAD with `equiv.py --record`; the script has to pass with and without patch.diff.
"""

import copy
import datetime
import hashlib
import pathlib
import pprint
import struct
import sys
from dataclasses import dataclass

import fsspec
from construct import Int8ub, Int16ub, Seek, Struct, Tell, this

from ceos_alos2.sar_image import io
from ceos_alos2.sar_image.processed_data import processed_data_record
from ceos_alos2.sar_image.signal_data import signal_data_record

# --------------------------------------------------------------------------------------
# synthetic records


def make_header(n_records, record_length):
    buf = bytearray(b" " * 720)
    buf[0:12] = struct.pack(">IBBBBI", 1, 50, 192, 18, 18, 720)

    def put(offset, width, value):
        buf[offset : offset + width] = str(value).rjust(width).encode("ascii")

    put(180, 6, n_records)
    put(186, 6, record_length)
    put(236, 8, 3)
    put(248, 8, 4)
    put(428, 4, "IU2")
    return bytes(buf)


def make_record(kind, seq, record_length, *, record_type=None, declared_length=None):
    prefix = {10: 544, 11: 192}[kind]
    buf = bytearray(max(record_length, prefix))
    rtype = kind if record_type is None else record_type
    length = record_length if declared_length is None else declared_length
    buf[0:12] = struct.pack(">IBBBBI", seq + 1, 50, rtype, 18, 20, length)
    buf[12:16] = struct.pack(">I", seq + 1)
    buf[16:20] = struct.pack(">I", 1)
    buf[36:48] = struct.pack(">III", 2020, 100 + seq, 1000 * seq + 7)
    buf[48:56] = struct.pack(">HHHH", 2, 0, seq % 2, 7)
    buf[56:60] = struct.pack(">I", 2000000 + seq)
    buf[60:64] = struct.pack(">I", 3)
    if kind == 10:
        buf[64:68] = struct.pack(">HH", seq % 2, 0)
        buf[84:92] = struct.pack(">Q", 123456 * (seq + 1))
        buf[224:230] = b"ab\x00\x00cd"
    else:
        buf[64:76] = struct.pack(">III", 800000, 850000 + seq, 900000)
    for i in range(prefix, record_length):
        buf[i] = (seq * 31 + i) % 251
    return bytes(buf[:record_length])


def records(kind, n, record_length, **kwargs):
    return b"".join(make_record(kind, seq, record_length, **kwargs) for seq in range(n))


# --------------------------------------------------------------------------------------
# canonical text form


def canon(obj):
    if isinstance(obj, dict):
        items = ", ".join(
            f"{canon(k)}: {canon(v) if k != '_io' else type(v).__name__}" for k, v in obj.items()
        )
        return f"{type(obj).__name__}{{{items}}}"
    if isinstance(obj, (list, tuple)):
        items = ", ".join(canon(v) for v in obj)
        return f"{type(obj).__name__}[{items}]"
    if isinstance(obj, (Record, Data, Partial)):
        return repr(obj)
    if isinstance(obj, (datetime.datetime, bytes, str, int, float, bool, type(None))):
        return f"{type(obj).__name__}:{obj!r}"
    raise TypeError(f"unexpected type: {type(obj)}")


def outcome(func, *args, **kwargs):
    try:
        return "ok " + canon(func(*args, **kwargs))
    except Exception as e:  # noqa: BLE001
        return f"raised {type(e).__module__}.{type(e).__qualname__}: {e}"


@dataclass
class Data:
    start: object
    stop: object


@dataclass
class Record:
    record_start: object
    data: object


@dataclass
class Partial:
    record_start: object


dummy_record_types = {
    10: Struct("preamble" / io.record_preamble, "a" / Int8ub, "b" / Int8ub, "c" / Int16ub),
    11: Struct("preamble" / io.record_preamble, "x" / Int8ub, "y" / Int8ub),
    12: None,
    0: Struct("preamble" / io.record_preamble),
}
tell_record_types = {
    11: Struct(
        "preamble" / io.record_preamble,
        "record_start" / Tell,
        "a" / Int8ub,
        "data" / Struct("start" / Tell, "stop" / Seek(this.start + 4)),
    ),
}

_orig_record_types = io.record_types


def parse_chunk_cases(out):
    for kind, length in ((11, 200), (11, 192), (11, 193), (10, 556), (10, 544)):
        for n in (1, 2, 3, 5):
            content = records(kind, n, length)
            out[f"parse-{kind}-{length}-{n}"] = outcome(io.parse_chunk, content, length)
            out[f"parse-{kind}-{length}-{n}-kw"] = outcome(
                io.parse_chunk, content=content, element_size=length
            )
        content = records(kind, 4, length)
        # element sizes which do or do not divide the content
        for size in (1, 2, 7, 100, length - 1, length + 1, 2 * length, 4 * length, 5 * length):
            out[f"parse-{kind}-{length}-size{size}"] = outcome(io.parse_chunk, content, size)

    content = records(11, 2, 200)
    for size in (0, -1, -2, -200, -400, -7, 200.0, 400.0, 7.5, None, "200", True, float("nan")):
        out[f"parse-oddsize-{size!r}"] = outcome(io.parse_chunk, content, size)
    out["parse-bytearray"] = outcome(io.parse_chunk, bytearray(content), 200)
    out["parse-memoryview"] = outcome(io.parse_chunk, memoryview(content), 200)
    out["parse-str"] = outcome(io.parse_chunk, "a" * 400, 200)
    out["parse-none"] = outcome(io.parse_chunk, None, 200)
    out["parse-list"] = outcome(io.parse_chunk, list(content), 200)

    # short contents
    for n in (0, 1, 4, 5, 6, 11, 12, 13, 24, 100, 191, 192):
        short = content[:n]
        out[f"parse-short-{n}-whole"] = outcome(io.parse_chunk, short, n if n else 1)
        out[f"parse-short-{n}-one"] = outcome(io.parse_chunk, short, 1)
        out[f"parse-short-{n}-200"] = outcome(io.parse_chunk, short, 200)

    # record types
    for rtype in (0, 1, 9, 10, 11, 12, 50, 255):
        content = records(11, 2, 200, record_type=rtype)
        out[f"parse-type-{rtype}-as-11"] = outcome(io.parse_chunk, content, 200)
        content = records(10, 2, 560, record_type=rtype)
        out[f"parse-type-{rtype}-as-10"] = outcome(io.parse_chunk, content, 560)
    # only the first preamble decides
    content = make_record(11, 0, 200) + make_record(11, 1, 200, record_type=99)
    out["parse-second-type-differs"] = outcome(io.parse_chunk, content, 200)
    content = make_record(11, 0, 200, record_type=99) + make_record(11, 1, 200)
    out["parse-first-type-differs"] = outcome(io.parse_chunk, content, 200)
    # the size mismatch is reported before the record type
    out["parse-both-wrong"] = outcome(io.parse_chunk, content + b"\x00", 200)

    # record length in the preamble differs from the element size
    for declared in (0, 100, 192, 199, 201, 400, 401, 2**31):
        content = records(11, 2, 200, declared_length=declared)
        out[f"parse-declared-{declared}"] = outcome(io.parse_chunk, content, 200)

    # replaced tables (the test-suite does this)
    for name, table in (("dummy", dummy_record_types), ("tell", tell_record_types), ("empty", {})):
        io.record_types = table
        try:
            for rtype in (0, 10, 11, 12, 13):
                for size, tail in ((16, b"\x02\x03\x00\x1f"), (14, b"\x03\x04"), (12, b""), (17, b"\x05\x00\x00\x00\x00")):
                    content = b"".join(
                        struct.pack(">IBBBBI", seq, 0, rtype, 0, 0, size) + tail
                        for seq in (1, 2, 3)
                    )
                    out[f"parse-{name}-type{rtype}-size{size}"] = outcome(
                        io.parse_chunk, content, size
                    )
        finally:
            io.record_types = _orig_record_types


def adjust_case(make, offset, consume=list):
    recs = make()
    arg = consume(recs)
    try:
        result = io.adjust_offsets(arg, offset)
    except Exception as e:  # noqa: BLE001
        return (
            f"raised {type(e).__module__}.{type(e).__qualname__}: {e}"
            f" || state={canon(list(recs))}"
        )
    same = [a is b for a, b in zip(result, recs)]
    return (
        f"ok type={type(result).__name__} len={len(result)} same={same}"
        f" result={canon(result)} || state={canon(list(recs))}"
    )


def adjust_offsets_cases(out):
    def plain():
        return [Record(1, Data(4, 6)), Record(6, Data(9, 11)), Record(15, Data(17, 21))]

    def parsed():
        return io.parse_chunk(records(11, 3, 200), 200)

    def parsed_signal():
        return io.parse_chunk(records(10, 2, 556), 556)

    def with_partial():
        return [Record(1, Data(4, 6)), Partial(5), Record(15, Data(17, 21))]

    def with_partial_data():
        return [Record(1, Data(4, 6)), Record(5, Partial(7)), Record(15, Data(17, 21))]

    def with_none():
        return [Record(1, Data(4, 6)), None]

    def with_dict():
        return [Record(1, Data(4, 6)), {"record_start": 1, "data": {"start": 1, "stop": 2}}]

    def shared():
        data = Data(4, 6)
        record = Record(1, data)
        return [record, record, Record(2, data)]

    def floats():
        return [Record(1.5, Data(4.25, 6)), Record("a", Data(9, 11))]

    def empty():
        return []

    makers = {
        "plain": plain,
        "parsed": parsed,
        "signal": parsed_signal,
        "partial": with_partial,
        "partialdata": with_partial_data,
        "none": with_none,
        "dict": with_dict,
        "shared": shared,
        "floats": floats,
        "empty": empty,
    }
    offsets = (0, 12, -3, 720, 2**40, 1.5, True, "x", None)
    for name, make in makers.items():
        for offset in offsets:
            out[f"adjust-{name}-{offset!r}"] = adjust_case(make, offset)
    out["adjust-tuple"] = adjust_case(plain, 5, consume=tuple)
    out["adjust-iter"] = adjust_case(plain, 5, consume=iter)
    out["adjust-gen"] = adjust_case(plain, 5, consume=lambda recs: (r for r in recs))
    out["adjust-dictkeys"] = outcome(io.adjust_offsets, {"a": 1}, 1)
    out["adjust-noniterable"] = outcome(io.adjust_offsets, 5, 1)
    out["adjust-none"] = outcome(io.adjust_offsets, None, 1)
    out["adjust-kw"] = outcome(io.adjust_offsets, records=plain(), offset=3)
    out["adjust-deepcopy-independent"] = canon(
        [io.adjust_offsets(copy.deepcopy(plain()), 1), io.adjust_offsets(plain(), 2)]
    )


def table_cases(out):
    table = io.record_types
    out["table-type"] = type(table).__name__
    out["table-keys"] = repr(list(table))
    out["table-identity"] = repr(
        [table[10] is signal_data_record, table[11] is processed_data_record, len(table)]
    )
    out["table-get"] = repr([table.get(9), table.get(12), table.get("10"), table.get(10.0) is signal_data_record])


def read_metadata_cases(out):
    from ceos_alos2.utils import to_dict

    fs = fsspec.filesystem("memory")
    for kind, length, n in ((11, 200, 5), (10, 556, 3), (11, 200, 0)):
        content = make_header(n, length) + records(kind, n, length)
        fs.pipe_file("/eq2/file", content)
        for rpc in (1, 2, 1024):
            with fs.open("/eq2/file", mode="rb") as f:
                out[f"read-{kind}-{n}-rpc{rpc}"] = outcome(io.read_metadata, f, rpc)
        fs.rm("/eq2/file")
    content = make_header(3, 200) + records(11, 2, 200) + make_record(11, 2, 200, record_type=77)
    fs.pipe_file("/eq2/file", content)
    for rpc in (1, 2, 3):
        with fs.open("/eq2/file", mode="rb") as f:
            out[f"read-badtype-rpc{rpc}"] = outcome(io.read_metadata, f, rpc)
    fs.rm("/eq2/file")
    assert to_dict is not None


def cases():
    out = {}
    table_cases(out)
    parse_chunk_cases(out)
    adjust_offsets_cases(out)
    read_metadata_cases(out)
    return out


def digest(text):
    if len(text) <= 400:
        return text
    return f"sha256:{hashlib.sha256(text.encode()).hexdigest()} len={len(text)}"


# EXPECTED-BEGIN
EXPECTED = {'table-type': 'dict',
 'table-keys': '[10, 11]',
 'table-identity': '[True, True, 2]',
 'table-get': '[None, None, None, True]',
 'parse-11-200-1': 'sha256:c4878e72fa37e75616dfaf0c22b52780b10017d2252f6692b3bbdd527473be68 '
                   'len=3066',
 'parse-11-200-1-kw': 'sha256:c4878e72fa37e75616dfaf0c22b52780b10017d2252f6692b3bbdd527473be68 '
                      'len=3066',
 'parse-11-200-2': 'sha256:4cf85d2e152d90005ec92e9387bc02b58b350a3267b0a8977718e959bc1dfa3e '
                   'len=6126',
 'parse-11-200-2-kw': 'sha256:4cf85d2e152d90005ec92e9387bc02b58b350a3267b0a8977718e959bc1dfa3e '
                      'len=6126',
 'parse-11-200-3': 'sha256:c0a5ff6ec9d941100acee50692aa2856a240c1968d739c06ea26253e03cfe963 '
                   'len=9188',
 'parse-11-200-3-kw': 'sha256:c0a5ff6ec9d941100acee50692aa2856a240c1968d739c06ea26253e03cfe963 '
                      'len=9188',
 'parse-11-200-5': 'sha256:69ea48994cf26002fdd842dda64f00a319d94e683cc1929ae4776dca7525d0e4 '
                   'len=15311',
 'parse-11-200-5-kw': 'sha256:69ea48994cf26002fdd842dda64f00a319d94e683cc1929ae4776dca7525d0e4 '
                      'len=15311',
 'parse-11-200-size1': 'raised construct.core.StreamError: Error in path (parsing) -> preamble -> '
                       'record_sequence_number\n'
                       'stream read less than specified amount, expected 4, found 0',
 'parse-11-200-size2': 'raised construct.core.StreamError: Error in path (parsing) -> preamble -> '
                       'record_sequence_number\n'
                       'stream read less than specified amount, expected 4, found 0',
 'parse-11-200-size7': 'raised builtins.ValueError: sizes mismatch: chunksize is 798 but got 800 '
                       'bytes',
 'parse-11-200-size100': 'raised construct.core.StreamError: Error in path (parsing) -> preamble '
                         '-> record_sequence_number\n'
                         'stream read less than specified amount, expected 4, found 0',
 'parse-11-200-size199': 'raised builtins.ValueError: sizes mismatch: chunksize is 796 but got 800 '
                         'bytes',
 'parse-11-200-size201': 'raised builtins.ValueError: sizes mismatch: chunksize is 603 but got 800 '
                         'bytes',
 'parse-11-200-size400': 'sha256:4cf85d2e152d90005ec92e9387bc02b58b350a3267b0a8977718e959bc1dfa3e '
                         'len=6126',
 'parse-11-200-size800': 'sha256:c4878e72fa37e75616dfaf0c22b52780b10017d2252f6692b3bbdd527473be68 '
                         'len=3066',
 'parse-11-200-size1000': 'raised builtins.ValueError: sizes mismatch: chunksize is 0 but got 800 '
                          'bytes',
 'parse-11-192-1': 'sha256:fafd2f4698015a5d70937fb4285341e2aad854e6be842f5e43c8cb9a240f8c6a '
                   'len=3066',
 'parse-11-192-1-kw': 'sha256:fafd2f4698015a5d70937fb4285341e2aad854e6be842f5e43c8cb9a240f8c6a '
                      'len=3066',
 'parse-11-192-2': 'sha256:8bf521d07ab296cdd980cd519fb6380cdb86d050a65652cc70c577eb1291533c '
                   'len=6126',
 'parse-11-192-2-kw': 'sha256:8bf521d07ab296cdd980cd519fb6380cdb86d050a65652cc70c577eb1291533c '
                      'len=6126',
 'parse-11-192-3': 'sha256:1c55236731386db8e3882884f5a5718b0a417760e3f15c5c883f10a4020e19e6 '
                   'len=9188',
 'parse-11-192-3-kw': 'sha256:1c55236731386db8e3882884f5a5718b0a417760e3f15c5c883f10a4020e19e6 '
                      'len=9188',
 'parse-11-192-5': 'sha256:c78efb9fbbe6e88226f3cf38248cada1713e6575b768ba962cf9c4e232dff16d '
                   'len=15310',
 'parse-11-192-5-kw': 'sha256:c78efb9fbbe6e88226f3cf38248cada1713e6575b768ba962cf9c4e232dff16d '
                      'len=15310',
 'parse-11-192-size1': 'raised construct.core.StreamError: Error in path (parsing) -> preamble -> '
                       'record_sequence_number\n'
                       'stream read less than specified amount, expected 4, found 0',
 'parse-11-192-size2': 'raised construct.core.StreamError: Error in path (parsing) -> preamble -> '
                       'record_sequence_number\n'
                       'stream read less than specified amount, expected 4, found 0',
 'parse-11-192-size7': 'raised builtins.ValueError: sizes mismatch: chunksize is 763 but got 768 '
                       'bytes',
 'parse-11-192-size100': 'raised builtins.ValueError: sizes mismatch: chunksize is 700 but got 768 '
                         'bytes',
 'parse-11-192-size191': 'raised builtins.ValueError: sizes mismatch: chunksize is 764 but got 768 '
                         'bytes',
 'parse-11-192-size193': 'raised builtins.ValueError: sizes mismatch: chunksize is 579 but got 768 '
                         'bytes',
 'parse-11-192-size384': 'sha256:8bf521d07ab296cdd980cd519fb6380cdb86d050a65652cc70c577eb1291533c '
                         'len=6126',
 'parse-11-192-size768': 'sha256:fafd2f4698015a5d70937fb4285341e2aad854e6be842f5e43c8cb9a240f8c6a '
                         'len=3066',
 'parse-11-192-size960': 'raised builtins.ValueError: sizes mismatch: chunksize is 0 but got 768 '
                         'bytes',
 'parse-11-193-1': 'sha256:9aa7f7ef7e005cda5da1b6e9aae24cf7140e951d515b5f22dd90dd602b9a5521 '
                   'len=3066',
 'parse-11-193-1-kw': 'sha256:9aa7f7ef7e005cda5da1b6e9aae24cf7140e951d515b5f22dd90dd602b9a5521 '
                      'len=3066',
 'parse-11-193-2': 'sha256:e79e72305ea5d8a665f30ab972936e8b3455c38a2f44cafb27a3496629308c5f '
                   'len=6126',
 'parse-11-193-2-kw': 'sha256:e79e72305ea5d8a665f30ab972936e8b3455c38a2f44cafb27a3496629308c5f '
                      'len=6126',
 'parse-11-193-3': 'sha256:73bfc56b9510363780946cea256845a1801a5080aa7d49ab2de8f27c14f6cee7 '
                   'len=9188',
 'parse-11-193-3-kw': 'sha256:73bfc56b9510363780946cea256845a1801a5080aa7d49ab2de8f27c14f6cee7 '
                      'len=9188',
 'parse-11-193-5': 'sha256:016963e7b2c379d8d2e0d9f7261c9e0253bdf4e9f09df72aff60c34b4b81f693 '
                   'len=15310',
 'parse-11-193-5-kw': 'sha256:016963e7b2c379d8d2e0d9f7261c9e0253bdf4e9f09df72aff60c34b4b81f693 '
                      'len=15310',
 'parse-11-193-size1': 'raised construct.core.StreamError: Error in path (parsing) -> preamble -> '
                       'record_sequence_number\n'
                       'stream read less than specified amount, expected 4, found 0',
 'parse-11-193-size2': 'raised construct.core.StreamError: Error in path (parsing) -> preamble -> '
                       'record_sequence_number\n'
                       'stream read less than specified amount, expected 4, found 0',
 'parse-11-193-size7': 'raised builtins.ValueError: sizes mismatch: chunksize is 770 but got 772 '
                       'bytes',
 'parse-11-193-size100': 'raised builtins.ValueError: sizes mismatch: chunksize is 700 but got 772 '
                         'bytes',
 'parse-11-193-size192': 'raised builtins.ValueError: sizes mismatch: chunksize is 768 but got 772 '
                         'bytes',
 'parse-11-193-size194': 'raised builtins.ValueError: sizes mismatch: chunksize is 582 but got 772 '
                         'bytes',
 'parse-11-193-size386': 'sha256:e79e72305ea5d8a665f30ab972936e8b3455c38a2f44cafb27a3496629308c5f '
                         'len=6126',
 'parse-11-193-size772': 'sha256:9aa7f7ef7e005cda5da1b6e9aae24cf7140e951d515b5f22dd90dd602b9a5521 '
                         'len=3066',
 'parse-11-193-size965': 'raised builtins.ValueError: sizes mismatch: chunksize is 0 but got 772 '
                         'bytes',
 'parse-10-556-1': 'sha256:f83efb6d08bfe3685325427ad921de8f6d2219a5cd6ecf74191c4c41212c6216 '
                   'len=4249',
 'parse-10-556-1-kw': 'sha256:f83efb6d08bfe3685325427ad921de8f6d2219a5cd6ecf74191c4c41212c6216 '
                      'len=4249',
 'parse-10-556-2': 'sha256:559c766f10a29c8d5ee99f82fa5db28d40a394be119b3c740eab26b6b19424cc '
                   'len=8494',
 'parse-10-556-2-kw': 'sha256:559c766f10a29c8d5ee99f82fa5db28d40a394be119b3c740eab26b6b19424cc '
                      'len=8494',
 'parse-10-556-3': 'sha256:62bbbc1369b41488366a2ab306070bc50393b05a99e56c81a04261dde045449a '
                   'len=12743',
 'parse-10-556-3-kw': 'sha256:62bbbc1369b41488366a2ab306070bc50393b05a99e56c81a04261dde045449a '
                      'len=12743',
 'parse-10-556-5': 'sha256:db1f77c97892ea2f3fbd4b166e687a68cef1f6f178c56a0ef20de192e6e108aa '
                   'len=21238',
 'parse-10-556-5-kw': 'sha256:db1f77c97892ea2f3fbd4b166e687a68cef1f6f178c56a0ef20de192e6e108aa '
                      'len=21238',
 'parse-10-556-size1': 'raised construct.core.StreamError: Error in path (parsing) -> preamble -> '
                       'record_sequence_number\n'
                       'stream read less than specified amount, expected 4, found 0',
 'parse-10-556-size2': 'raised construct.core.StreamError: Error in path (parsing) -> preamble -> '
                       'record_sequence_number\n'
                       'stream read less than specified amount, expected 4, found 0',
 'parse-10-556-size7': 'raised builtins.ValueError: sizes mismatch: chunksize is 2219 but got 2224 '
                       'bytes',
 'parse-10-556-size100': 'raised builtins.ValueError: sizes mismatch: chunksize is 2200 but got '
                         '2224 bytes',
 'parse-10-556-size555': 'raised builtins.ValueError: sizes mismatch: chunksize is 2220 but got '
                         '2224 bytes',
 'parse-10-556-size557': 'raised builtins.ValueError: sizes mismatch: chunksize is 1671 but got '
                         '2224 bytes',
 'parse-10-556-size1112': 'sha256:559c766f10a29c8d5ee99f82fa5db28d40a394be119b3c740eab26b6b19424cc '
                          'len=8494',
 'parse-10-556-size2224': 'sha256:f83efb6d08bfe3685325427ad921de8f6d2219a5cd6ecf74191c4c41212c6216 '
                          'len=4249',
 'parse-10-556-size2780': 'raised builtins.ValueError: sizes mismatch: chunksize is 0 but got 2224 '
                          'bytes',
 'parse-10-544-1': 'sha256:b2292a624220d5e78a2e656a4ce3fc4d5db6e24b2ddcf5628329c3bffc366f6c '
                   'len=4248',
 'parse-10-544-1-kw': 'sha256:b2292a624220d5e78a2e656a4ce3fc4d5db6e24b2ddcf5628329c3bffc366f6c '
                      'len=4248',
 'parse-10-544-2': 'sha256:295bad0e974c2695a3f5b8defa06e16c65ce9c4022ff6a49bd5816a1c9cd43e9 '
                   'len=8492',
 'parse-10-544-2-kw': 'sha256:295bad0e974c2695a3f5b8defa06e16c65ce9c4022ff6a49bd5816a1c9cd43e9 '
                      'len=8492',
 'parse-10-544-3': 'sha256:968dc47b377e24174a896392f11b8f4062433b02831ef116d8a65d5f922dd8f5 '
                   'len=12740',
 'parse-10-544-3-kw': 'sha256:968dc47b377e24174a896392f11b8f4062433b02831ef116d8a65d5f922dd8f5 '
                      'len=12740',
 'parse-10-544-5': 'sha256:1a26964d3066c7b34f41942591d22e606b7d101b6a69b284f4f914f4ec896552 '
                   'len=21233',
 'parse-10-544-5-kw': 'sha256:1a26964d3066c7b34f41942591d22e606b7d101b6a69b284f4f914f4ec896552 '
                      'len=21233',
 'parse-10-544-size1': 'raised construct.core.StreamError: Error in path (parsing) -> preamble -> '
                       'record_sequence_number\n'
                       'stream read less than specified amount, expected 4, found 0',
 'parse-10-544-size2': 'raised construct.core.StreamError: Error in path (parsing) -> preamble -> '
                       'record_sequence_number\n'
                       'stream read less than specified amount, expected 4, found 0',
 'parse-10-544-size7': 'raised builtins.ValueError: sizes mismatch: chunksize is 2170 but got 2176 '
                       'bytes',
 'parse-10-544-size100': 'raised builtins.ValueError: sizes mismatch: chunksize is 2100 but got '
                         '2176 bytes',
 'parse-10-544-size543': 'raised builtins.ValueError: sizes mismatch: chunksize is 2172 but got '
                         '2176 bytes',
 'parse-10-544-size545': 'raised builtins.ValueError: sizes mismatch: chunksize is 1635 but got '
                         '2176 bytes',
 'parse-10-544-size1088': 'sha256:295bad0e974c2695a3f5b8defa06e16c65ce9c4022ff6a49bd5816a1c9cd43e9 '
                          'len=8492',
 'parse-10-544-size2176': 'sha256:b2292a624220d5e78a2e656a4ce3fc4d5db6e24b2ddcf5628329c3bffc366f6c '
                          'len=4248',
 'parse-10-544-size2720': 'raised builtins.ValueError: sizes mismatch: chunksize is 0 but got 2176 '
                          'bytes',
 'parse-oddsize-0': 'raised builtins.ZeroDivisionError: integer division or modulo by zero',
 'parse-oddsize--1': 'raised construct.core.RangeError: Error in path (parsing)\n'
                     'invalid count -400',
 'parse-oddsize--2': 'raised construct.core.RangeError: Error in path (parsing)\n'
                     'invalid count -200',
 'parse-oddsize--200': 'raised construct.core.RangeError: Error in path (parsing)\n'
                       'invalid count -2',
 'parse-oddsize--400': 'raised construct.core.RangeError: Error in path (parsing)\n'
                       'invalid count -1',
 'parse-oddsize--7': 'raised builtins.ValueError: sizes mismatch: chunksize is 406 but got 400 '
                     'bytes',
 'parse-oddsize-200.0': 'raised construct.core.ConstructError: subcon[N] syntax expects integer or '
                        'context lambda',
 'parse-oddsize-400.0': 'raised construct.core.ConstructError: subcon[N] syntax expects integer or '
                        'context lambda',
 'parse-oddsize-7.5': 'raised builtins.ValueError: sizes mismatch: chunksize is 397.5 but got 400 '
                      'bytes',
 'parse-oddsize-None': "raised builtins.TypeError: unsupported operand type(s) for //: 'int' and "
                       "'NoneType'",
 "parse-oddsize-'200'": "raised builtins.TypeError: unsupported operand type(s) for //: 'int' and "
                        "'str'",
 'parse-oddsize-True': 'raised construct.core.StreamError: Error in path (parsing) -> preamble -> '
                       'record_sequence_number\n'
                       'stream read less than specified amount, expected 4, found 0',
 'parse-oddsize-nan': 'raised builtins.ValueError: sizes mismatch: chunksize is nan but got 400 '
                      'bytes',
 'parse-bytearray': 'sha256:4cf85d2e152d90005ec92e9387bc02b58b350a3267b0a8977718e959bc1dfa3e '
                    'len=6126',
 'parse-memoryview': 'sha256:4cf85d2e152d90005ec92e9387bc02b58b350a3267b0a8977718e959bc1dfa3e '
                     'len=6126',
 'parse-str': "raised builtins.TypeError: a bytes-like object is required, not 'str'",
 'parse-none': "raised builtins.TypeError: object of type 'NoneType' has no len()",
 'parse-list': "raised builtins.TypeError: a bytes-like object is required, not 'list'",
 'parse-short-0-whole': 'raised construct.core.StreamError: Error in path (parsing) -> '
                        'record_sequence_number\n'
                        'stream read less than specified amount, expected 4, found 0',
 'parse-short-0-one': 'raised construct.core.StreamError: Error in path (parsing) -> '
                      'record_sequence_number\n'
                      'stream read less than specified amount, expected 4, found 0',
 'parse-short-0-200': 'raised construct.core.StreamError: Error in path (parsing) -> '
                      'record_sequence_number\n'
                      'stream read less than specified amount, expected 4, found 0',
 'parse-short-1-whole': 'raised construct.core.StreamError: Error in path (parsing) -> '
                        'record_sequence_number\n'
                        'stream read less than specified amount, expected 4, found 1',
 'parse-short-1-one': 'raised construct.core.StreamError: Error in path (parsing) -> '
                      'record_sequence_number\n'
                      'stream read less than specified amount, expected 4, found 1',
 'parse-short-1-200': 'raised builtins.ValueError: sizes mismatch: chunksize is 0 but got 1 bytes',
 'parse-short-4-whole': 'raised construct.core.StreamError: Error in path (parsing) -> '
                        'first_record_subtype\n'
                        'stream read less than specified amount, expected 1, found 0',
 'parse-short-4-one': 'raised construct.core.StreamError: Error in path (parsing) -> '
                      'first_record_subtype\n'
                      'stream read less than specified amount, expected 1, found 0',
 'parse-short-4-200': 'raised builtins.ValueError: sizes mismatch: chunksize is 0 but got 4 bytes',
 'parse-short-5-whole': 'raised construct.core.StreamError: Error in path (parsing) -> '
                        'record_type\n'
                        'stream read less than specified amount, expected 1, found 0',
 'parse-short-5-one': 'raised construct.core.StreamError: Error in path (parsing) -> record_type\n'
                      'stream read less than specified amount, expected 1, found 0',
 'parse-short-5-200': 'raised builtins.ValueError: sizes mismatch: chunksize is 0 but got 5 bytes',
 'parse-short-6-whole': 'raised construct.core.StreamError: Error in path (parsing) -> '
                        'second_record_subtype\n'
                        'stream read less than specified amount, expected 1, found 0',
 'parse-short-6-one': 'raised construct.core.StreamError: Error in path (parsing) -> '
                      'second_record_subtype\n'
                      'stream read less than specified amount, expected 1, found 0',
 'parse-short-6-200': 'raised builtins.ValueError: sizes mismatch: chunksize is 0 but got 6 bytes',
 'parse-short-11-whole': 'raised construct.core.StreamError: Error in path (parsing) -> '
                         'record_length\n'
                         'stream read less than specified amount, expected 4, found 3',
 'parse-short-11-one': 'raised construct.core.StreamError: Error in path (parsing) -> '
                       'record_length\n'
                       'stream read less than specified amount, expected 4, found 3',
 'parse-short-11-200': 'raised builtins.ValueError: sizes mismatch: chunksize is 0 but got 11 '
                       'bytes',
 'parse-short-12-whole': 'raised construct.core.StreamError: Error in path (parsing) -> '
                         'sar_image_data_line_number\n'
                         'stream read less than specified amount, expected 4, found 0',
 'parse-short-12-one': 'raised construct.core.StreamError: Error in path (parsing) -> '
                       'sar_image_data_line_number\n'
                       'stream read less than specified amount, expected 4, found 0',
 'parse-short-12-200': 'raised builtins.ValueError: sizes mismatch: chunksize is 0 but got 12 '
                       'bytes',
 'parse-short-13-whole': 'raised construct.core.StreamError: Error in path (parsing) -> '
                         'sar_image_data_line_number\n'
                         'stream read less than specified amount, expected 4, found 1',
 'parse-short-13-one': 'raised construct.core.StreamError: Error in path (parsing) -> '
                       'sar_image_data_line_number\n'
                       'stream read less than specified amount, expected 4, found 1',
 'parse-short-13-200': 'raised builtins.ValueError: sizes mismatch: chunksize is 0 but got 13 '
                       'bytes',
 'parse-short-24-whole': 'raised construct.core.StreamError: Error in path (parsing) -> '
                         'actual_count_of_data_pixels\n'
                         'stream read less than specified amount, expected 4, found 0',
 'parse-short-24-one': 'raised construct.core.StreamError: Error in path (parsing) -> '
                       'actual_count_of_data_pixels\n'
                       'stream read less than specified amount, expected 4, found 0',
 'parse-short-24-200': 'raised builtins.ValueError: sizes mismatch: chunksize is 0 but got 24 '
                       'bytes',
 'parse-short-100-whole': 'raised construct.core.StreamError: Error in path (parsing) -> '
                          'look_angle_of_nadir\n'
                          'stream read less than specified amount, expected 4, found 0',
 'parse-short-100-one': 'raised construct.core.StreamError: Error in path (parsing) -> '
                        'look_angle_of_nadir\n'
                        'stream read less than specified amount, expected 4, found 0',
 'parse-short-100-200': 'raised builtins.ValueError: sizes mismatch: chunksize is 0 but got 100 '
                        'bytes',
 'parse-short-191-whole': 'raised construct.core.StreamError: Error in path (parsing) -> blanks4\n'
                          'stream read less than specified amount, expected 8, found 7',
 'parse-short-191-one': 'raised construct.core.StreamError: Error in path (parsing) -> blanks4\n'
                        'stream read less than specified amount, expected 8, found 7',
 'parse-short-191-200': 'raised builtins.ValueError: sizes mismatch: chunksize is 0 but got 191 '
                        'bytes',
 'parse-short-192-whole': 'sha256:c4878e72fa37e75616dfaf0c22b52780b10017d2252f6692b3bbdd527473be68 '
                          'len=3066',
 'parse-short-192-one': 'raised construct.core.StreamError: Error in path (parsing) -> preamble -> '
                        'record_sequence_number\n'
                        'stream read less than specified amount, expected 4, found 0',
 'parse-short-192-200': 'raised builtins.ValueError: sizes mismatch: chunksize is 0 but got 192 '
                        'bytes',
 'parse-type-0-as-11': 'raised builtins.ValueError: unknown record type code: 0',
 'parse-type-0-as-10': 'raised builtins.ValueError: unknown record type code: 0',
 'parse-type-1-as-11': 'raised builtins.ValueError: unknown record type code: 1',
 'parse-type-1-as-10': 'raised builtins.ValueError: unknown record type code: 1',
 'parse-type-9-as-11': 'raised builtins.ValueError: unknown record type code: 9',
 'parse-type-9-as-10': 'raised builtins.ValueError: unknown record type code: 9',
 'parse-type-10-as-11': 'raised construct.core.StreamError: Error in path (parsing) -> '
                        'palsar_auxiliary_data\n'
                        'stream read less than specified amount, expected 256, found 112',
 'parse-type-10-as-10': 'sha256:d04a3f6f8c4f59b9473e7e377a538cdf263c0e3ae1e9ef9dd7c0d7b20d46adbc '
                        'len=8494',
 'parse-type-11-as-11': 'sha256:4cf85d2e152d90005ec92e9387bc02b58b350a3267b0a8977718e959bc1dfa3e '
                        'len=6126',
 'parse-type-11-as-10': 'sha256:f6c6793fe14c6c0b0470a63c5e01ed071a2e34613e532681b49631c268977917 '
                        'len=6115',
 'parse-type-12-as-11': 'raised builtins.ValueError: unknown record type code: 12',
 'parse-type-12-as-10': 'raised builtins.ValueError: unknown record type code: 12',
 'parse-type-50-as-11': 'raised builtins.ValueError: unknown record type code: 50',
 'parse-type-50-as-10': 'raised builtins.ValueError: unknown record type code: 50',
 'parse-type-255-as-11': 'raised builtins.ValueError: unknown record type code: 255',
 'parse-type-255-as-10': 'raised builtins.ValueError: unknown record type code: 255',
 'parse-second-type-differs': 'sha256:98c849353d7404c91bcff0bcab5b3b415986c82e5c8c9d3229469520b1ab2175 '
                              'len=6126',
 'parse-first-type-differs': 'raised builtins.ValueError: unknown record type code: 99',
 'parse-both-wrong': 'raised builtins.ValueError: sizes mismatch: chunksize is 400 but got 401 '
                     'bytes',
 'parse-declared-0': 'sha256:cbde632e42e6144fc0082a0a1ac544711f4da890437ed76bfb7deff55d025bc4 '
                     'len=6123',
 'parse-declared-100': 'raised builtins.ValueError: year 0 is out of range',
 'parse-declared-192': 'raised builtins.ValueError: year 0 is out of range',
 'parse-declared-199': 'raised builtins.OverflowError: Python int too large to convert to C int',
 'parse-declared-201': 'raised builtins.ValueError: year 517120 is out of range',
 'parse-declared-400': 'raised construct.core.StreamError: Error in path (parsing) -> preamble -> '
                       'record_sequence_number\n'
                       'stream read less than specified amount, expected 4, found 0',
 'parse-declared-401': 'raised construct.core.StreamError: Error in path (parsing) -> preamble -> '
                       'record_sequence_number\n'
                       'stream read less than specified amount, expected 4, found 0',
 'parse-declared-2147483648': 'raised construct.core.StreamError: Error in path (parsing) -> '
                              'preamble -> record_sequence_number\n'
                              'stream read less than specified amount, expected 4, found 0',
 'parse-dummy-type0-size16': 'sha256:33466d2ff4951ccdd91e3b14df5174a954064b4303d12e87e259206d60c118d7 '
                             'len=842',
 'parse-dummy-type0-size14': 'sha256:8b415e4a4d43c59744d7642a99d1ca1d01be998d9dc1ebe131102598782ea3d5 '
                             'len=845',
 'parse-dummy-type0-size12': 'sha256:f8463817c62c85498367cd353fd657927ae02048ed8397e0f85db848a5a3ab15 '
                             'len=835',
 'parse-dummy-type0-size17': 'sha256:d936afbdcbec3ef81b952580dbc59a467eb9e89c2a6238498491ebf979954dee '
                             'len=848',
 'parse-dummy-type10-size16': 'sha256:75287a14337af19f032f1682f3b80479920abc65f8190daf2595dba29631e03f '
                              'len=985',
 'parse-dummy-type10-size14': 'raised construct.core.StreamError: Error in path (parsing) -> '
                              'preamble -> record_length\n'
                              'stream read less than specified amount, expected 4, found 2',
 'parse-dummy-type10-size12': 'raised construct.core.StreamError: Error in path (parsing) -> '
                              'preamble -> first_record_subtype\n'
                              'stream read less than specified amount, expected 1, found 0',
 'parse-dummy-type10-size17': 'sha256:443d11b39653763ae9bb2e3f5070047113a292ed329eb65885c8120943f3fcf6 '
                              'len=985',
 'parse-dummy-type11-size16': 'sha256:e1d62d8125306c561b16bbb2062f009f39a42ccfb94ef522fe29c034604b6fa4 '
                              'len=950',
 'parse-dummy-type11-size14': 'sha256:d406051f0ed602221759681464946c43a2edd9d0c4beafd841481893efb0aa76 '
                              'len=934',
 'parse-dummy-type11-size12': 'raised construct.core.StreamError: Error in path (parsing) -> '
                              'preamble -> record_length\n'
                              'stream read less than specified amount, expected 4, found 0',
 'parse-dummy-type11-size17': 'sha256:d3d5bef336c90b60648685d96c690971910d1c148bd427d8a65a02c03674e17b '
                              'len=951',
 'parse-dummy-type12-size16': 'raised builtins.ValueError: unknown record type code: 12',
 'parse-dummy-type12-size14': 'raised builtins.ValueError: unknown record type code: 12',
 'parse-dummy-type12-size12': 'raised builtins.ValueError: unknown record type code: 12',
 'parse-dummy-type12-size17': 'raised builtins.ValueError: unknown record type code: 12',
 'parse-dummy-type13-size16': 'raised builtins.ValueError: unknown record type code: 13',
 'parse-dummy-type13-size14': 'raised builtins.ValueError: unknown record type code: 13',
 'parse-dummy-type13-size12': 'raised builtins.ValueError: unknown record type code: 13',
 'parse-dummy-type13-size17': 'raised builtins.ValueError: unknown record type code: 13',
 'parse-tell-type0-size16': 'raised builtins.ValueError: unknown record type code: 0',
 'parse-tell-type0-size14': 'raised builtins.ValueError: unknown record type code: 0',
 'parse-tell-type0-size12': 'raised builtins.ValueError: unknown record type code: 0',
 'parse-tell-type0-size17': 'raised builtins.ValueError: unknown record type code: 0',
 'parse-tell-type10-size16': 'raised builtins.ValueError: unknown record type code: 10',
 'parse-tell-type10-size14': 'raised builtins.ValueError: unknown record type code: 10',
 'parse-tell-type10-size12': 'raised builtins.ValueError: unknown record type code: 10',
 'parse-tell-type10-size17': 'raised builtins.ValueError: unknown record type code: 10',
 'parse-tell-type11-size16': 'sha256:b65ea6d357a95d48a3b5ad038dbf87ae172ea6cf5719604cd6656ddd3f36bc46 '
                             'len=1235',
 'parse-tell-type11-size14': 'raised construct.core.StreamError: Error in path (parsing) -> '
                             'preamble -> record_length\n'
                             'stream read less than specified amount, expected 4, found 0',
 'parse-tell-type11-size12': 'raised construct.core.StreamError: Error in path (parsing) -> '
                             'preamble -> record_sequence_number\n'
                             'stream read less than specified amount, expected 4, found 2',
 'parse-tell-type11-size17': 'sha256:6659e7744caa909d9fce12462faa3230d9584d737aea0bd2f38d6ed435198b3b '
                             'len=1222',
 'parse-tell-type12-size16': 'raised builtins.ValueError: unknown record type code: 12',
 'parse-tell-type12-size14': 'raised builtins.ValueError: unknown record type code: 12',
 'parse-tell-type12-size12': 'raised builtins.ValueError: unknown record type code: 12',
 'parse-tell-type12-size17': 'raised builtins.ValueError: unknown record type code: 12',
 'parse-tell-type13-size16': 'raised builtins.ValueError: unknown record type code: 13',
 'parse-tell-type13-size14': 'raised builtins.ValueError: unknown record type code: 13',
 'parse-tell-type13-size12': 'raised builtins.ValueError: unknown record type code: 13',
 'parse-tell-type13-size17': 'raised builtins.ValueError: unknown record type code: 13',
 'parse-empty-type0-size16': 'raised builtins.ValueError: unknown record type code: 0',
 'parse-empty-type0-size14': 'raised builtins.ValueError: unknown record type code: 0',
 'parse-empty-type0-size12': 'raised builtins.ValueError: unknown record type code: 0',
 'parse-empty-type0-size17': 'raised builtins.ValueError: unknown record type code: 0',
 'parse-empty-type10-size16': 'raised builtins.ValueError: unknown record type code: 10',
 'parse-empty-type10-size14': 'raised builtins.ValueError: unknown record type code: 10',
 'parse-empty-type10-size12': 'raised builtins.ValueError: unknown record type code: 10',
 'parse-empty-type10-size17': 'raised builtins.ValueError: unknown record type code: 10',
 'parse-empty-type11-size16': 'raised builtins.ValueError: unknown record type code: 11',
 'parse-empty-type11-size14': 'raised builtins.ValueError: unknown record type code: 11',
 'parse-empty-type11-size12': 'raised builtins.ValueError: unknown record type code: 11',
 'parse-empty-type11-size17': 'raised builtins.ValueError: unknown record type code: 11',
 'parse-empty-type12-size16': 'raised builtins.ValueError: unknown record type code: 12',
 'parse-empty-type12-size14': 'raised builtins.ValueError: unknown record type code: 12',
 'parse-empty-type12-size12': 'raised builtins.ValueError: unknown record type code: 12',
 'parse-empty-type12-size17': 'raised builtins.ValueError: unknown record type code: 12',
 'parse-empty-type13-size16': 'raised builtins.ValueError: unknown record type code: 13',
 'parse-empty-type13-size14': 'raised builtins.ValueError: unknown record type code: 13',
 'parse-empty-type13-size12': 'raised builtins.ValueError: unknown record type code: 13',
 'parse-empty-type13-size17': 'raised builtins.ValueError: unknown record type code: 13',
 'adjust-plain-0': 'ok type=list len=3 same=[True, True, True] result=list[Record(record_start=1, '
                   'data=Data(start=4, stop=6)), Record(record_start=6, data=Data(start=9, '
                   'stop=11)), Record(record_start=15, data=Data(start=17, stop=21))] || '
                   'state=list[Record(record_start=1, data=Data(start=4, stop=6)), '
                   'Record(record_start=6, data=Data(start=9, stop=11)), Record(record_start=15, '
                   'data=Data(start=17, stop=21))]',
 'adjust-plain-12': 'ok type=list len=3 same=[True, True, True] '
                    'result=list[Record(record_start=13, data=Data(start=16, stop=18)), '
                    'Record(record_start=18, data=Data(start=21, stop=23)), '
                    'Record(record_start=27, data=Data(start=29, stop=33))] || '
                    'state=list[Record(record_start=13, data=Data(start=16, stop=18)), '
                    'Record(record_start=18, data=Data(start=21, stop=23)), '
                    'Record(record_start=27, data=Data(start=29, stop=33))]',
 'adjust-plain--3': 'ok type=list len=3 same=[True, True, True] '
                    'result=list[Record(record_start=-2, data=Data(start=1, stop=3)), '
                    'Record(record_start=3, data=Data(start=6, stop=8)), Record(record_start=12, '
                    'data=Data(start=14, stop=18))] || state=list[Record(record_start=-2, '
                    'data=Data(start=1, stop=3)), Record(record_start=3, data=Data(start=6, '
                    'stop=8)), Record(record_start=12, data=Data(start=14, stop=18))]',
 'adjust-plain-720': 'sha256:4a4a9e9b4e3aa324c67965d0b2a9e37b96219126307f75ba8c436319819291ad '
                     'len=416',
 'adjust-plain-1099511627776': 'sha256:02b5e9d79b5f55cce1fed065177f61b96a281451c7bd6e694a7279a01c0327bb '
                               'len=596',
 'adjust-plain-1.5': 'sha256:21e07c56c754e95aa4604c95677646a00b443c2055db08bc572cfed555a65b54 '
                     'len=426',
 'adjust-plain-True': 'ok type=list len=3 same=[True, True, True] '
                      'result=list[Record(record_start=2, data=Data(start=5, stop=7)), '
                      'Record(record_start=7, data=Data(start=10, stop=12)), '
                      'Record(record_start=16, data=Data(start=18, stop=22))] || '
                      'state=list[Record(record_start=2, data=Data(start=5, stop=7)), '
                      'Record(record_start=7, data=Data(start=10, stop=12)), '
                      'Record(record_start=16, data=Data(start=18, stop=22))]',
 "adjust-plain-'x'": "raised builtins.TypeError: unsupported operand type(s) for +=: 'int' and "
                     "'str' || state=list[Record(record_start=1, data=Data(start=4, stop=6)), "
                     'Record(record_start=6, data=Data(start=9, stop=11)), Record(record_start=15, '
                     'data=Data(start=17, stop=21))]',
 'adjust-plain-None': "raised builtins.TypeError: unsupported operand type(s) for +=: 'int' and "
                      "'NoneType' || state=list[Record(record_start=1, data=Data(start=4, "
                      'stop=6)), Record(record_start=6, data=Data(start=9, stop=11)), '
                      'Record(record_start=15, data=Data(start=17, stop=21))]',
 'adjust-parsed-0': 'sha256:9881ff6eb4c40908479da3b70a5a3deeac0d75a8c195c61a41b53c4ceafe5cc7 '
                    'len=18430',
 'adjust-parsed-12': 'sha256:7e9e955be1fc353b891b4ed09e1445b96d11b4034a8f278d1aba5e3be690ae5d '
                     'len=18432',
 'adjust-parsed--3': 'sha256:6bfc6696482133661de537a214b7073df52fdd9b5cdad2f98e29e235603dade1 '
                     'len=18432',
 'adjust-parsed-720': 'sha256:e3ac03947d37c87a2807bdce397358a0bf52b7c6b44e821fe18d5c54b672170d '
                      'len=18444',
 'adjust-parsed-1099511627776': 'sha256:6feadad804fcfea79b9ee87f6348096f59c372bbe2cfd936dcbec682eb1af2ef '
                                'len=18614',
 'adjust-parsed-1.5': 'sha256:c52a97c27dca98ab3f5062fd98265f34ada5147e3257e6fb523cbecb5b86f8fc '
                      'len=18502',
 'adjust-parsed-True': 'sha256:7babee84ca12e97ffce113b5910d0b7e66275f80c5e0d18c50e0a396d48654ab '
                       'len=18430',
 "adjust-parsed-'x'": 'sha256:92d6108ea084e0b3f0bb4e87c82074b89ada30b0081b9297e36cfeddda9bd514 '
                      'len=9273',
 'adjust-parsed-None': 'sha256:4e4aa7070d3778cd138b1eeacb2796a74653163bd8e21fbf2d265baf671baccf '
                       'len=9278',
 'adjust-signal-0': 'sha256:e03197223452e9c9d61afe0f274d7ee4239588aeee7a6ce5efaa2e34452905d9 '
                    'len=17036',
 'adjust-signal-12': 'sha256:d923a13a98b4902f7f374e278f81731e45340cff3716df8ecffde52ef69e8909 '
                     'len=17038',
 'adjust-signal--3': 'sha256:8635832209166e3d37d3c56b0a77aa49c2589647dafeef92d465dbc00abfb0d7 '
                     'len=17038',
 'adjust-signal-720': 'sha256:e2ffe210f29b41fb5a67054e923b57bfd8ef17acd9f3627e47f4a6db750e59f7 '
                      'len=17046',
 'adjust-signal-1099511627776': 'sha256:ae22fce56a1188e8e9cc2887b7d5de8e1a718aa31e2e9dcfb45ad6ffd8ae709b '
                                'len=17156',
 'adjust-signal-1.5': 'sha256:fe94c4131d19e8660cba104f1777164b6ef030e20402197a3a06e7346d34bfe2 '
                      'len=17084',
 'adjust-signal-True': 'sha256:ae66eb89c1d01c688f8dc737d103c216a5e1f9f5a022584c27d61993235f0992 '
                       'len=17036',
 "adjust-signal-'x'": 'sha256:d56fd17fc7cf18d417b79b1af0d940ddbea54f8f10f225cabc2743fa39ed2a9c '
                      'len=8579',
 'adjust-signal-None': 'sha256:b20ce963a9af60ac2c07b3ab889b3b163897aa5f1bd0e1623aa4b2465c146c09 '
                       'len=8584',
 'adjust-partial-0': "raised builtins.AttributeError: 'Partial' object has no attribute 'data' || "
                     'state=list[Record(record_start=1, data=Data(start=4, stop=6)), '
                     'Partial(record_start=5), Record(record_start=15, data=Data(start=17, '
                     'stop=21))]',
 'adjust-partial-12': "raised builtins.AttributeError: 'Partial' object has no attribute 'data' || "
                      'state=list[Record(record_start=13, data=Data(start=16, stop=18)), '
                      'Partial(record_start=17), Record(record_start=15, data=Data(start=17, '
                      'stop=21))]',
 'adjust-partial--3': "raised builtins.AttributeError: 'Partial' object has no attribute 'data' || "
                      'state=list[Record(record_start=-2, data=Data(start=1, stop=3)), '
                      'Partial(record_start=2), Record(record_start=15, data=Data(start=17, '
                      'stop=21))]',
 'adjust-partial-720': "raised builtins.AttributeError: 'Partial' object has no attribute 'data' "
                       '|| state=list[Record(record_start=721, data=Data(start=724, stop=726)), '
                       'Partial(record_start=725), Record(record_start=15, data=Data(start=17, '
                       'stop=21))]',
 'adjust-partial-1099511627776': "raised builtins.AttributeError: 'Partial' object has no "
                                 "attribute 'data' || "
                                 'state=list[Record(record_start=1099511627777, '
                                 'data=Data(start=1099511627780, stop=1099511627782)), '
                                 'Partial(record_start=1099511627781), Record(record_start=15, '
                                 'data=Data(start=17, stop=21))]',
 'adjust-partial-1.5': "raised builtins.AttributeError: 'Partial' object has no attribute 'data' "
                       '|| state=list[Record(record_start=2.5, data=Data(start=5.5, stop=7.5)), '
                       'Partial(record_start=6.5), Record(record_start=15, data=Data(start=17, '
                       'stop=21))]',
 'adjust-partial-True': "raised builtins.AttributeError: 'Partial' object has no attribute 'data' "
                        '|| state=list[Record(record_start=2, data=Data(start=5, stop=7)), '
                        'Partial(record_start=6), Record(record_start=15, data=Data(start=17, '
                        'stop=21))]',
 "adjust-partial-'x'": "raised builtins.TypeError: unsupported operand type(s) for +=: 'int' and "
                       "'str' || state=list[Record(record_start=1, data=Data(start=4, stop=6)), "
                       'Partial(record_start=5), Record(record_start=15, data=Data(start=17, '
                       'stop=21))]',
 'adjust-partial-None': "raised builtins.TypeError: unsupported operand type(s) for +=: 'int' and "
                        "'NoneType' || state=list[Record(record_start=1, data=Data(start=4, "
                        'stop=6)), Partial(record_start=5), Record(record_start=15, '
                        'data=Data(start=17, stop=21))]',
 'adjust-partialdata-0': "raised builtins.AttributeError: 'Partial' object has no attribute "
                         "'start' || state=list[Record(record_start=1, data=Data(start=4, "
                         'stop=6)), Record(record_start=5, data=Partial(record_start=7)), '
                         'Record(record_start=15, data=Data(start=17, stop=21))]',
 'adjust-partialdata-12': "raised builtins.AttributeError: 'Partial' object has no attribute "
                          "'start' || state=list[Record(record_start=13, data=Data(start=16, "
                          'stop=18)), Record(record_start=17, data=Partial(record_start=7)), '
                          'Record(record_start=15, data=Data(start=17, stop=21))]',
 'adjust-partialdata--3': "raised builtins.AttributeError: 'Partial' object has no attribute "
                          "'start' || state=list[Record(record_start=-2, data=Data(start=1, "
                          'stop=3)), Record(record_start=2, data=Partial(record_start=7)), '
                          'Record(record_start=15, data=Data(start=17, stop=21))]',
 'adjust-partialdata-720': "raised builtins.AttributeError: 'Partial' object has no attribute "
                           "'start' || state=list[Record(record_start=721, data=Data(start=724, "
                           'stop=726)), Record(record_start=725, data=Partial(record_start=7)), '
                           'Record(record_start=15, data=Data(start=17, stop=21))]',
 'adjust-partialdata-1099511627776': "raised builtins.AttributeError: 'Partial' object has no "
                                     "attribute 'start' || "
                                     'state=list[Record(record_start=1099511627777, '
                                     'data=Data(start=1099511627780, stop=1099511627782)), '
                                     'Record(record_start=1099511627781, '
                                     'data=Partial(record_start=7)), Record(record_start=15, '
                                     'data=Data(start=17, stop=21))]',
 'adjust-partialdata-1.5': "raised builtins.AttributeError: 'Partial' object has no attribute "
                           "'start' || state=list[Record(record_start=2.5, data=Data(start=5.5, "
                           'stop=7.5)), Record(record_start=6.5, data=Partial(record_start=7)), '
                           'Record(record_start=15, data=Data(start=17, stop=21))]',
 'adjust-partialdata-True': "raised builtins.AttributeError: 'Partial' object has no attribute "
                            "'start' || state=list[Record(record_start=2, data=Data(start=5, "
                            'stop=7)), Record(record_start=6, data=Partial(record_start=7)), '
                            'Record(record_start=15, data=Data(start=17, stop=21))]',
 "adjust-partialdata-'x'": "raised builtins.TypeError: unsupported operand type(s) for +=: 'int' "
                           "and 'str' || state=list[Record(record_start=1, data=Data(start=4, "
                           'stop=6)), Record(record_start=5, data=Partial(record_start=7)), '
                           'Record(record_start=15, data=Data(start=17, stop=21))]',
 'adjust-partialdata-None': "raised builtins.TypeError: unsupported operand type(s) for +=: 'int' "
                            "and 'NoneType' || state=list[Record(record_start=1, "
                            'data=Data(start=4, stop=6)), Record(record_start=5, '
                            'data=Partial(record_start=7)), Record(record_start=15, '
                            'data=Data(start=17, stop=21))]',
 'adjust-none-0': "raised builtins.AttributeError: 'NoneType' object has no attribute "
                  "'record_start' || state=list[Record(record_start=1, data=Data(start=4, "
                  'stop=6)), NoneType:None]',
 'adjust-none-12': "raised builtins.AttributeError: 'NoneType' object has no attribute "
                   "'record_start' || state=list[Record(record_start=13, data=Data(start=16, "
                   'stop=18)), NoneType:None]',
 'adjust-none--3': "raised builtins.AttributeError: 'NoneType' object has no attribute "
                   "'record_start' || state=list[Record(record_start=-2, data=Data(start=1, "
                   'stop=3)), NoneType:None]',
 'adjust-none-720': "raised builtins.AttributeError: 'NoneType' object has no attribute "
                    "'record_start' || state=list[Record(record_start=721, data=Data(start=724, "
                    'stop=726)), NoneType:None]',
 'adjust-none-1099511627776': "raised builtins.AttributeError: 'NoneType' object has no attribute "
                              "'record_start' || state=list[Record(record_start=1099511627777, "
                              'data=Data(start=1099511627780, stop=1099511627782)), NoneType:None]',
 'adjust-none-1.5': "raised builtins.AttributeError: 'NoneType' object has no attribute "
                    "'record_start' || state=list[Record(record_start=2.5, data=Data(start=5.5, "
                    'stop=7.5)), NoneType:None]',
 'adjust-none-True': "raised builtins.AttributeError: 'NoneType' object has no attribute "
                     "'record_start' || state=list[Record(record_start=2, data=Data(start=5, "
                     'stop=7)), NoneType:None]',
 "adjust-none-'x'": "raised builtins.TypeError: unsupported operand type(s) for +=: 'int' and "
                    "'str' || state=list[Record(record_start=1, data=Data(start=4, stop=6)), "
                    'NoneType:None]',
 'adjust-none-None': "raised builtins.TypeError: unsupported operand type(s) for +=: 'int' and "
                     "'NoneType' || state=list[Record(record_start=1, data=Data(start=4, stop=6)), "
                     'NoneType:None]',
 'adjust-dict-0': "raised builtins.AttributeError: 'dict' object has no attribute 'record_start' "
                  '|| state=list[Record(record_start=1, data=Data(start=4, stop=6)), '
                  "dict{str:'record_start': int:1, str:'data': dict{str:'start': int:1, "
                  "str:'stop': int:2}}]",
 'adjust-dict-12': "raised builtins.AttributeError: 'dict' object has no attribute 'record_start' "
                   '|| state=list[Record(record_start=13, data=Data(start=16, stop=18)), '
                   "dict{str:'record_start': int:1, str:'data': dict{str:'start': int:1, "
                   "str:'stop': int:2}}]",
 'adjust-dict--3': "raised builtins.AttributeError: 'dict' object has no attribute 'record_start' "
                   '|| state=list[Record(record_start=-2, data=Data(start=1, stop=3)), '
                   "dict{str:'record_start': int:1, str:'data': dict{str:'start': int:1, "
                   "str:'stop': int:2}}]",
 'adjust-dict-720': "raised builtins.AttributeError: 'dict' object has no attribute 'record_start' "
                    '|| state=list[Record(record_start=721, data=Data(start=724, stop=726)), '
                    "dict{str:'record_start': int:1, str:'data': dict{str:'start': int:1, "
                    "str:'stop': int:2}}]",
 'adjust-dict-1099511627776': "raised builtins.AttributeError: 'dict' object has no attribute "
                              "'record_start' || state=list[Record(record_start=1099511627777, "
                              'data=Data(start=1099511627780, stop=1099511627782)), '
                              "dict{str:'record_start': int:1, str:'data': dict{str:'start': "
                              "int:1, str:'stop': int:2}}]",
 'adjust-dict-1.5': "raised builtins.AttributeError: 'dict' object has no attribute 'record_start' "
                    '|| state=list[Record(record_start=2.5, data=Data(start=5.5, stop=7.5)), '
                    "dict{str:'record_start': int:1, str:'data': dict{str:'start': int:1, "
                    "str:'stop': int:2}}]",
 'adjust-dict-True': "raised builtins.AttributeError: 'dict' object has no attribute "
                     "'record_start' || state=list[Record(record_start=2, data=Data(start=5, "
                     "stop=7)), dict{str:'record_start': int:1, str:'data': dict{str:'start': "
                     "int:1, str:'stop': int:2}}]",
 "adjust-dict-'x'": "raised builtins.TypeError: unsupported operand type(s) for +=: 'int' and "
                    "'str' || state=list[Record(record_start=1, data=Data(start=4, stop=6)), "
                    "dict{str:'record_start': int:1, str:'data': dict{str:'start': int:1, "
                    "str:'stop': int:2}}]",
 'adjust-dict-None': "raised builtins.TypeError: unsupported operand type(s) for +=: 'int' and "
                     "'NoneType' || state=list[Record(record_start=1, data=Data(start=4, stop=6)), "
                     "dict{str:'record_start': int:1, str:'data': dict{str:'start': int:1, "
                     "str:'stop': int:2}}]",
 'adjust-shared-0': 'ok type=list len=3 same=[True, True, True] result=list[Record(record_start=1, '
                    'data=Data(start=4, stop=6)), Record(record_start=1, data=Data(start=4, '
                    'stop=6)), Record(record_start=2, data=Data(start=4, stop=6))] || '
                    'state=list[Record(record_start=1, data=Data(start=4, stop=6)), '
                    'Record(record_start=1, data=Data(start=4, stop=6)), Record(record_start=2, '
                    'data=Data(start=4, stop=6))]',
 'adjust-shared-12': 'ok type=list len=3 same=[True, True, True] '
                     'result=list[Record(record_start=25, data=Data(start=40, stop=42)), '
                     'Record(record_start=25, data=Data(start=40, stop=42)), '
                     'Record(record_start=14, data=Data(start=40, stop=42))] || '
                     'state=list[Record(record_start=25, data=Data(start=40, stop=42)), '
                     'Record(record_start=25, data=Data(start=40, stop=42)), '
                     'Record(record_start=14, data=Data(start=40, stop=42))]',
 'adjust-shared--3': 'ok type=list len=3 same=[True, True, True] '
                     'result=list[Record(record_start=-5, data=Data(start=-5, stop=-3)), '
                     'Record(record_start=-5, data=Data(start=-5, stop=-3)), '
                     'Record(record_start=-1, data=Data(start=-5, stop=-3))] || '
                     'state=list[Record(record_start=-5, data=Data(start=-5, stop=-3)), '
                     'Record(record_start=-5, data=Data(start=-5, stop=-3)), '
                     'Record(record_start=-1, data=Data(start=-5, stop=-3))]',
 'adjust-shared-720': 'sha256:40ebde89901954b97237223ab621a83d90ff5866251890cca368d955ad1b6dfd '
                      'len=432',
 'adjust-shared-1099511627776': 'sha256:44c03e1b883186ad681e6f73459410d2ea53f280ee8f923c460eb937d13b38ee '
                                'len=596',
 'adjust-shared-1.5': 'sha256:18090fb25c412c4eb64d9139db7caabeafae3b0ca6b140a25886ae05579d35ea '
                      'len=422',
 'adjust-shared-True': 'ok type=list len=3 same=[True, True, True] '
                       'result=list[Record(record_start=3, data=Data(start=7, stop=9)), '
                       'Record(record_start=3, data=Data(start=7, stop=9)), Record(record_start=3, '
                       'data=Data(start=7, stop=9))] || state=list[Record(record_start=3, '
                       'data=Data(start=7, stop=9)), Record(record_start=3, data=Data(start=7, '
                       'stop=9)), Record(record_start=3, data=Data(start=7, stop=9))]',
 "adjust-shared-'x'": "raised builtins.TypeError: unsupported operand type(s) for +=: 'int' and "
                      "'str' || state=list[Record(record_start=1, data=Data(start=4, stop=6)), "
                      'Record(record_start=1, data=Data(start=4, stop=6)), Record(record_start=2, '
                      'data=Data(start=4, stop=6))]',
 'adjust-shared-None': "raised builtins.TypeError: unsupported operand type(s) for +=: 'int' and "
                       "'NoneType' || state=list[Record(record_start=1, data=Data(start=4, "
                       'stop=6)), Record(record_start=1, data=Data(start=4, stop=6)), '
                       'Record(record_start=2, data=Data(start=4, stop=6))]',
 'adjust-floats-0': 'raised builtins.TypeError: can only concatenate str (not "int") to str || '
                    'state=list[Record(record_start=1.5, data=Data(start=4.25, stop=6)), '
                    "Record(record_start='a', data=Data(start=9, stop=11))]",
 'adjust-floats-12': 'raised builtins.TypeError: can only concatenate str (not "int") to str || '
                     'state=list[Record(record_start=13.5, data=Data(start=16.25, stop=18)), '
                     "Record(record_start='a', data=Data(start=9, stop=11))]",
 'adjust-floats--3': 'raised builtins.TypeError: can only concatenate str (not "int") to str || '
                     'state=list[Record(record_start=-1.5, data=Data(start=1.25, stop=3)), '
                     "Record(record_start='a', data=Data(start=9, stop=11))]",
 'adjust-floats-720': 'raised builtins.TypeError: can only concatenate str (not "int") to str || '
                      'state=list[Record(record_start=721.5, data=Data(start=724.25, stop=726)), '
                      "Record(record_start='a', data=Data(start=9, stop=11))]",
 'adjust-floats-1099511627776': 'raised builtins.TypeError: can only concatenate str (not "int") '
                                'to str || state=list[Record(record_start=1099511627777.5, '
                                'data=Data(start=1099511627780.25, stop=1099511627782)), '
                                "Record(record_start='a', data=Data(start=9, stop=11))]",
 'adjust-floats-1.5': 'raised builtins.TypeError: can only concatenate str (not "float") to str || '
                      'state=list[Record(record_start=3.0, data=Data(start=5.75, stop=7.5)), '
                      "Record(record_start='a', data=Data(start=9, stop=11))]",
 'adjust-floats-True': 'raised builtins.TypeError: can only concatenate str (not "bool") to str || '
                       'state=list[Record(record_start=2.5, data=Data(start=5.25, stop=7)), '
                       "Record(record_start='a', data=Data(start=9, stop=11))]",
 "adjust-floats-'x'": "raised builtins.TypeError: unsupported operand type(s) for +=: 'float' and "
                      "'str' || state=list[Record(record_start=1.5, data=Data(start=4.25, "
                      "stop=6)), Record(record_start='a', data=Data(start=9, stop=11))]",
 'adjust-floats-None': "raised builtins.TypeError: unsupported operand type(s) for +=: 'float' and "
                       "'NoneType' || state=list[Record(record_start=1.5, data=Data(start=4.25, "
                       "stop=6)), Record(record_start='a', data=Data(start=9, stop=11))]",
 'adjust-empty-0': 'ok type=list len=0 same=[] result=list[] || state=list[]',
 'adjust-empty-12': 'ok type=list len=0 same=[] result=list[] || state=list[]',
 'adjust-empty--3': 'ok type=list len=0 same=[] result=list[] || state=list[]',
 'adjust-empty-720': 'ok type=list len=0 same=[] result=list[] || state=list[]',
 'adjust-empty-1099511627776': 'ok type=list len=0 same=[] result=list[] || state=list[]',
 'adjust-empty-1.5': 'ok type=list len=0 same=[] result=list[] || state=list[]',
 'adjust-empty-True': 'ok type=list len=0 same=[] result=list[] || state=list[]',
 "adjust-empty-'x'": 'ok type=list len=0 same=[] result=list[] || state=list[]',
 'adjust-empty-None': 'ok type=list len=0 same=[] result=list[] || state=list[]',
 'adjust-tuple': 'ok type=list len=3 same=[True, True, True] result=list[Record(record_start=6, '
                 'data=Data(start=9, stop=11)), Record(record_start=11, data=Data(start=14, '
                 'stop=16)), Record(record_start=20, data=Data(start=22, stop=26))] || '
                 'state=list[Record(record_start=6, data=Data(start=9, stop=11)), '
                 'Record(record_start=11, data=Data(start=14, stop=16)), Record(record_start=20, '
                 'data=Data(start=22, stop=26))]',
 'adjust-iter': 'ok type=list len=3 same=[True, True, True] result=list[Record(record_start=6, '
                'data=Data(start=9, stop=11)), Record(record_start=11, data=Data(start=14, '
                'stop=16)), Record(record_start=20, data=Data(start=22, stop=26))] || '
                'state=list[Record(record_start=6, data=Data(start=9, stop=11)), '
                'Record(record_start=11, data=Data(start=14, stop=16)), Record(record_start=20, '
                'data=Data(start=22, stop=26))]',
 'adjust-gen': 'ok type=list len=3 same=[True, True, True] result=list[Record(record_start=6, '
               'data=Data(start=9, stop=11)), Record(record_start=11, data=Data(start=14, '
               'stop=16)), Record(record_start=20, data=Data(start=22, stop=26))] || '
               'state=list[Record(record_start=6, data=Data(start=9, stop=11)), '
               'Record(record_start=11, data=Data(start=14, stop=16)), Record(record_start=20, '
               'data=Data(start=22, stop=26))]',
 'adjust-dictkeys': "raised builtins.AttributeError: 'str' object has no attribute 'record_start'",
 'adjust-noniterable': "raised builtins.TypeError: 'int' object is not iterable",
 'adjust-none': "raised builtins.TypeError: 'NoneType' object is not iterable",
 'adjust-kw': 'ok list[Record(record_start=4, data=Data(start=7, stop=9)), Record(record_start=9, '
              'data=Data(start=12, stop=14)), Record(record_start=18, data=Data(start=20, '
              'stop=24))]',
 'adjust-deepcopy-independent': 'list[list[Record(record_start=2, data=Data(start=5, stop=7)), '
                                'Record(record_start=7, data=Data(start=10, stop=12)), '
                                'Record(record_start=16, data=Data(start=18, stop=22))], '
                                'list[Record(record_start=3, data=Data(start=6, stop=8)), '
                                'Record(record_start=8, data=Data(start=11, stop=13)), '
                                'Record(record_start=17, data=Data(start=19, stop=23))]]',
 'read-11-5-rpc1': 'sha256:8164202e1a00832d279803090dedb09bb568ebf22c743b932015726d97f3939d '
                   'len=17468',
 'read-11-5-rpc2': 'sha256:8164202e1a00832d279803090dedb09bb568ebf22c743b932015726d97f3939d '
                   'len=17468',
 'read-11-5-rpc1024': 'sha256:8164202e1a00832d279803090dedb09bb568ebf22c743b932015726d97f3939d '
                      'len=17468',
 'read-10-3-rpc1': 'sha256:bedc0cde8c509f37becc6e44e71d3f9ba762b2081780d60b90e4ec7a129ed5ab '
                   'len=14668',
 'read-10-3-rpc2': 'sha256:bedc0cde8c509f37becc6e44e71d3f9ba762b2081780d60b90e4ec7a129ed5ab '
                   'len=14668',
 'read-10-3-rpc1024': 'sha256:bedc0cde8c509f37becc6e44e71d3f9ba762b2081780d60b90e4ec7a129ed5ab '
                      'len=14668',
 'read-11-0-rpc1': 'sha256:82fbe994c517fe79b1a44b1444f65e6a6944a7ae59a1e58d3068dcd77f60d86d '
                   'len=3129',
 'read-11-0-rpc2': 'sha256:82fbe994c517fe79b1a44b1444f65e6a6944a7ae59a1e58d3068dcd77f60d86d '
                   'len=3129',
 'read-11-0-rpc1024': 'sha256:82fbe994c517fe79b1a44b1444f65e6a6944a7ae59a1e58d3068dcd77f60d86d '
                      'len=3129',
 'read-badtype-rpc1': 'raised builtins.ValueError: unknown record type code: 77',
 'read-badtype-rpc2': 'raised builtins.ValueError: unknown record type code: 77',
 'read-badtype-rpc3': 'sha256:f95b7480f60934b9a4b19c6cc7fa4b8b0d6a18dbd619e344cd3f5ddaa1d0b506 '
                      'len=11730'}
# EXPECTED-END


def test_equivalence():
    actual = {name: digest(text) for name, text in cases().items()}
    assert list(actual) == list(EXPECTED)
    for name, value in actual.items():
        assert value == EXPECTED[name], name


if __name__ == "__main__":
    if "--record" in sys.argv:
        actual = {name: digest(text) for name, text in cases().items()}
        path = pathlib.Path(__file__)
        source = path.read_text()
        head, rest = source.split("# EXPECTED-BEGIN\n", 1)
        _, tail = rest.split("# EXPECTED-END\n", 1)
        body = "EXPECTED = " + pprint.pformat(actual, width=100, sort_dicts=False) + "\n"
        path.write_text(head + "# EXPECTED-BEGIN\n" + body + "# EXPECTED-END\n" + tail)
        print(f"recorded {len(actual)} cases")
    else:
        test_equivalence()
        print(f"ok: {len(EXPECTED)} cases identical")
